package ref

import (
	"verif/gen"
)

// R2 — a hand-written LL recursive-descent recogniser over token lists for
// the grammar the documentation gives, extended with the static rules that
// make a program a compile error (unknown name at toplevel, redeclaration in
// the same scope, selector/target rules of bind, literal well-formedness).
// Expression levels are separate functions (or / and / not / equality /
// ordering / additive / multiplicative / unary / primary); it shares neither
// table nor control flow with the implementation's Pratt parser.

type Verdict struct {
	Accept      bool
	FailTok     int    // index of the first offending token; len(toks) = at end of input
	Class       string // syntax | undefined | redeclared | badliteral | bindselector | bindtarget | bindall | assign
	Unspecified string // non-empty: the documentation does not settle this input
}

type recog struct {
	toks   []gen.Tok
	i      int
	scopes [][]string
	depth  int
	unspec string
}

type recogFail struct {
	at    int
	class string
}

func (r *recog) fail(at int, class string) { panic(recogFail{at, class}) }

func (r *recog) peek() (gen.Tok, bool) {
	if r.i < len(r.toks) {
		return r.toks[r.i], true
	}
	return gen.Tok{}, false
}

func (r *recog) peekAt(k int) (gen.Tok, bool) {
	if r.i+k < len(r.toks) {
		return r.toks[r.i+k], true
	}
	return gen.Tok{}, false
}

func (r *recog) isP(s string) bool {
	t, ok := r.peek()
	return ok && t.K == gen.KPunct && t.S == s
}

func (r *recog) isW(s string) bool {
	t, ok := r.peek()
	return ok && t.K == gen.KWord && t.S == s
}

func (r *recog) isIdent() bool {
	t, ok := r.peek()
	return ok && t.K == gen.KWord && !gen.IsKeyword(t.S)
}

func (r *recog) isVar(name string) bool {
	for i := len(r.scopes) - 1; i >= 0; i-- {
		for _, n := range r.scopes[i] {
			if n == name {
				return true
			}
		}
	}
	return false
}

// Recognize decides a token list.
func Recognize(toks []gen.Tok) (v Verdict) {
	r := &recog{toks: toks, scopes: [][]string{nil}}
	defer func() {
		if x := recover(); x != nil {
			f, ok := x.(recogFail)
			if !ok {
				panic(x)
			}
			v = Verdict{Accept: false, FailTok: f.at, Class: f.class, Unspecified: r.unspec}
		}
	}()
	for r.i < len(r.toks) {
		r.decl()
		if r.isP(";") {
			r.i++
		}
	}
	return Verdict{Accept: true, FailTok: -1, Unspecified: r.unspec}
}

func (r *recog) decl() {
	switch {
	case r.isW("var"):
		r.i++
		if !r.isIdent() {
			r.fail(r.i, "syntax")
		}
		name := r.toks[r.i].S
		sc := r.scopes[len(r.scopes)-1]
		for _, n := range sc {
			if n == name {
				r.fail(r.i, "redeclared")
			}
		}
		r.i++
		if r.isP("=") {
			r.i++
			r.expr() // the new name is not visible in its own initializer
		}
		r.scopes[len(r.scopes)-1] = append(r.scopes[len(r.scopes)-1], name)
	case r.isW("print"), r.isW("eval"):
		r.i++
		r.expr()
	case r.isW("def"):
		r.i++
		if !r.isIdent() {
			r.fail(r.i, "syntax")
		}
		r.i++
		if t, ok := r.peek(); ok && t.K == gen.KStr {
			if _, good := gen.Unquote(t.S); !good {
				r.fail(r.i, "badliteral")
			}
			r.i++
		}
		if !r.isP("{") {
			r.fail(r.i, "syntax")
		}
		r.i++
		r.scopes = append(r.scopes, nil)
		r.depth++
		for r.i < len(r.toks) && !r.isP("}") {
			r.decl()
			if r.isP(";") {
				r.i++
			}
		}
		if !r.isP("}") {
			r.fail(r.i, "syntax")
		}
		r.i++
		r.depth--
		r.scopes = r.scopes[:len(r.scopes)-1]
	case r.isW("bind"):
		if r.depth > 0 {
			r.unspec = "bind inside a block"
		}
		r.i++
		if !r.isIdent() {
			r.fail(r.i, "syntax")
		}
		r.i++
		all := false
		if r.isP(":") {
			r.i++
			t, ok := r.peek()
			switch {
			case ok && t.K == gen.KNum && isIntTok(t.S):
				if t.S != "1" {
					r.fail(r.i, "bindselector")
				}
			case ok && t.K == gen.KWord && !gen.IsKeyword(t.S):
				switch t.S {
				case "first", "last":
				case "all":
					all = true
				default:
					r.fail(r.i, "bindselector")
				}
			default:
				r.fail(r.i, "bindselector")
			}
			r.i++
		}
		if !r.isP("->") {
			r.fail(r.i, "syntax")
		}
		r.i++
		if !r.isIdent() {
			r.fail(r.i, "bindtarget")
		}
		switch r.toks[r.i].S {
		case "struct":
			if all {
				r.fail(r.i, "bindall")
			}
		case "slice":
		default:
			r.fail(r.i, "bindtarget")
		}
		r.i++
	default:
		if r.depth == 0 {
			r.fail(r.i, "syntax") // expected statement
		}
		r.expr()
	}
}

// isIntTok tells an int literal from a float literal by its spelling.
func isIntTok(s string) bool {
	if len(s) >= 2 && s[0] == '0' && (s[1] == 'x' || s[1] == 'X') {
		return true
	}
	for i := 0; i < len(s); i++ {
		if s[i] < '0' || s[i] > '9' {
			return false
		}
	}
	return true
}

// expr := IDENT '=' expr | or ; a '=' after a complete operand is the
// "invalid assignment target" error.
func (r *recog) expr() {
	if r.isIdent() {
		if n, ok := r.peekAt(1); ok && n.K == gen.KPunct && n.S == "=" {
			name := r.toks[r.i].S
			if !r.isVar(name) && r.depth == 0 {
				r.fail(r.i, "undefined")
			}
			r.i += 2
			r.expr()
			return
		}
	}
	r.or()
	if r.isP("=") {
		r.fail(r.i, "assign")
	}
}

func (r *recog) or() {
	r.and()
	for r.isW("or") {
		r.i++
		r.and()
	}
}

func (r *recog) and() {
	r.not()
	for r.isW("and") {
		r.i++
		r.not()
	}
}

func (r *recog) not() {
	if r.isW("not") {
		r.i++
		r.not()
		return
	}
	r.eq()
}

func (r *recog) eq() {
	r.cmp()
	for r.isP("==") || r.isP("!=") {
		r.i++
		r.cmp()
	}
}

func (r *recog) cmp() {
	r.add()
	for r.isP("<") || r.isP(">") || r.isP("<=") || r.isP(">=") {
		r.i++
		r.add()
	}
}

func (r *recog) add() {
	r.mul()
	for r.isP("+") || r.isP("-") {
		r.i++
		r.mul()
	}
}

func (r *recog) mul() {
	r.unary()
	for r.isP("*") || r.isP("/") {
		r.i++
		r.unary()
	}
}

func (r *recog) unary() {
	if r.isP("-") || r.isP("+") {
		r.i++
		r.unary()
		return
	}
	r.primary()
}

func (r *recog) primary() {
	t, ok := r.peek()
	if !ok {
		r.fail(r.i, "syntax")
	}
	switch t.K {
	case gen.KNum:
		if isIntTok(t.S) {
			if _, good := ParseIntLit(t.S); !good {
				r.fail(r.i, "badliteral")
			}
		} else if _, good := ParseFloatLit(t.S); !good {
			r.fail(r.i, "badliteral")
		}
		r.i++
	case gen.KStr:
		if _, good := gen.Unquote(t.S); !good {
			r.fail(r.i, "badliteral")
		}
		r.i++
	case gen.KWord:
		switch t.S {
		case "true", "false", "nil":
			r.i++
		case "not":
			// 'not' directly under a tighter operator: outside the documented
			// precedence list (a syntax error in the stated model, Python);
			// the documentation does not settle it
			r.unspec = "'not' as the direct operand of a tighter operator"
			r.i++
			r.not()
		default:
			if gen.IsKeyword(t.S) {
				r.fail(r.i, "syntax")
			}
			if !r.isVar(t.S) && r.depth == 0 {
				r.fail(r.i, "undefined")
			}
			r.i++
		}
	case gen.KPunct:
		if t.S != "(" {
			r.fail(r.i, "syntax")
		}
		r.i++
		r.expr()
		if !r.isP(")") {
			r.fail(r.i, "syntax")
		}
		r.i++
	}
}
