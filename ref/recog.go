package ref

import (
	"verif/gen"
)

// R2 — a hand-written LL recursive-descent recogniser over token lists for
// the grammar the documentation gives, extended with the static rules that
// make a program a compile error (unknown name at toplevel, redeclaration in
// the same scope, selector/target rules of bind, literal well-formedness).
// Expression levels are separate functions (or / and / not / equality /
// ordering / additive / multiplicative / unary / primary); it shares neither
// table nor control flow with the implementation's Pratt parser.

type Verdict struct {
	Accept      bool
	FailTok     int    // index of the first offending token; len(toks) = at end of input
	Class       string // syntax | undefined | redeclared | badliteral | bindselector | bindtarget | bindall | assign
	Unspecified string // non-empty: the documentation does not settle this input
	// AtOperand: the input fails where an operand (the start of an
	// expression) was required; otherwise a specific token was required (a
	// closing parenthesis, a name, '=', '{', '->', ...) or a rule was broken.
	AtOperand bool
}

type recog struct {
	toks   []gen.Tok
	i      int
	scopes [][]string
	depth  int
	unspec string
}

type recogFail struct {
	at      int
	class   string
	operand bool
}

func (r *recog) fail(at int, class string) { panic(recogFail{at, class, false}) }
func (r *recog) failOperand(at int)        { panic(recogFail{at, "syntax", true}) }

func (r *recog) peek() (gen.Tok, bool) {
	if r.i < len(r.toks) {
		return r.toks[r.i], true
	}
	return gen.Tok{}, false
}

func (r *recog) peekAt(k int) (gen.Tok, bool) {
	if r.i+k < len(r.toks) {
		return r.toks[r.i+k], true
	}
	return gen.Tok{}, false
}

func (r *recog) isP(s string) bool {
	t, ok := r.peek()
	return ok && t.K == gen.KPunct && t.S == s
}

func (r *recog) isW(s string) bool {
	t, ok := r.peek()
	return ok && t.K == gen.KWord && t.S == s
}

func (r *recog) isIdent() bool {
	t, ok := r.peek()
	return ok && t.K == gen.KWord && !gen.IsKeyword(t.S)
}

func (r *recog) isVar(name string) bool {
	for i := len(r.scopes) - 1; i >= 0; i-- {
		for _, n := range r.scopes[i] {
			if n == name {
				return true
			}
		}
	}
	return false
}

// Recognize decides a token list.
func Recognize(toks []gen.Tok) Verdict {
	_, v := ParseTokens(toks)
	return v
}

// ParseTokens decides a token list and, when it is accepted, also gives the
// tree the documented grammar assigns to it (redundant parentheses become
// "par" nodes), so that R1 can evaluate sources the harness did not
// generate from a tree (mutants, the repository's test table).
func ParseTokens(toks []gen.Tok) (prog *gen.Prog, v Verdict) {
	r := &recog{toks: toks, scopes: [][]string{nil}}
	prog = &gen.Prog{}
	defer func() {
		if x := recover(); x != nil {
			f, ok := x.(recogFail)
			if !ok {
				panic(x)
			}
			prog, v = nil, Verdict{Accept: false, FailTok: f.at, Class: f.class, Unspecified: r.unspec, AtOperand: f.operand}
		}
	}()
	for r.i < len(r.toks) {
		st := r.decl()
		if r.isP(";") {
			r.i++
			st.Semi = true
		}
		prog.Stmts = append(prog.Stmts, st)
	}
	return prog, Verdict{Accept: true, FailTok: -1, Unspecified: r.unspec}
}

func (r *recog) decl() *gen.Stmt {
	switch {
	case r.isW("var"):
		r.i++
		if !r.isIdent() {
			r.fail(r.i, "syntax")
		}
		name := r.toks[r.i].S
		sc := r.scopes[len(r.scopes)-1]
		for _, n := range sc {
			if n == name {
				r.fail(r.i, "redeclared")
			}
		}
		r.i++
		st := &gen.Stmt{K: "var", Name: name}
		if r.isP("=") {
			r.i++
			st.E = r.expr() // the new name is not visible in its own initializer
		}
		r.scopes[len(r.scopes)-1] = append(r.scopes[len(r.scopes)-1], name)
		return st
	case r.isW("print"), r.isW("eval"):
		k := r.toks[r.i].S
		r.i++
		return &gen.Stmt{K: k, E: r.expr()}
	case r.isW("def"):
		r.i++
		if !r.isIdent() {
			r.fail(r.i, "syntax")
		}
		st := &gen.Stmt{K: "def", Name: r.toks[r.i].S}
		r.i++
		if t, ok := r.peek(); ok && t.K == gen.KStr {
			if _, good := gen.Unquote(t.S); !good {
				r.fail(r.i, "badliteral")
			}
			st.HasBName, st.BNameLit = true, t.S
			r.i++
		}
		if !r.isP("{") {
			r.fail(r.i, "syntax")
		}
		r.i++
		r.scopes = append(r.scopes, nil)
		r.depth++
		for r.i < len(r.toks) && !r.isP("}") {
			b := r.decl()
			if r.isP(";") {
				r.i++
				b.Semi = true
			}
			st.Body = append(st.Body, b)
		}
		if !r.isP("}") {
			r.fail(r.i, "syntax")
		}
		r.i++
		r.depth--
		r.scopes = r.scopes[:len(r.scopes)-1]
		return st
	case r.isW("bind"):
		if r.depth > 0 {
			r.unspec = "bind inside a block"
		}
		r.i++
		if !r.isIdent() {
			r.fail(r.i, "syntax")
		}
		st := &gen.Stmt{K: "bind", Name: r.toks[r.i].S}
		r.i++
		all := false
		if r.isP(":") {
			r.i++
			t, ok := r.peek()
			st.HasSel, st.Sel = true, t
			switch {
			case ok && t.K == gen.KNum && isIntTok(t.S):
				if t.S != "1" {
					r.fail(r.i, "bindselector")
				}
			case ok && t.K == gen.KWord && !gen.IsKeyword(t.S):
				switch t.S {
				case "first", "last":
				case "all":
					all = true
				default:
					r.fail(r.i, "bindselector")
				}
			default:
				r.fail(r.i, "bindselector")
			}
			r.i++
		}
		if !r.isP("->") {
			r.fail(r.i, "syntax")
		}
		r.i++
		if !r.isIdent() {
			r.fail(r.i, "bindtarget")
		}
		switch r.toks[r.i].S {
		case "struct":
			if all {
				r.fail(r.i, "bindall")
			}
		case "slice":
		default:
			r.fail(r.i, "bindtarget")
		}
		st.Target = r.toks[r.i].S
		r.i++
		return st
	default:
		if r.depth == 0 {
			r.fail(r.i, "syntax") // expected statement
		}
		return &gen.Stmt{K: "expr", E: r.expr()}
	}
}

// isIntTok tells an int literal from a float literal by its spelling.
func isIntTok(s string) bool {
	if len(s) >= 2 && s[0] == '0' && (s[1] == 'x' || s[1] == 'X') {
		return true
	}
	for i := 0; i < len(s); i++ {
		if s[i] < '0' || s[i] > '9' {
			return false
		}
	}
	return true
}

// expr := IDENT '=' expr | or ; a '=' after a complete operand is the
// "invalid assignment target" error.
func (r *recog) expr() *gen.Expr {
	if r.isIdent() {
		if n, ok := r.peekAt(1); ok && n.K == gen.KPunct && n.S == "=" {
			name := r.toks[r.i].S
			if !r.isVar(name) && r.depth == 0 {
				r.fail(r.i, "undefined")
			}
			r.i += 2
			return &gen.Expr{K: "asg", T: name, A: r.expr()}
		}
	}
	e := r.or()
	if r.isP("=") {
		r.fail(r.i, "assign")
	}
	return e
}

// and/or chains: the grouping cannot be observed; the tree is built
// right-grouped like the renderer writes it
func (r *recog) or() *gen.Expr {
	e := r.and()
	if r.isW("or") {
		r.i++
		return &gen.Expr{K: "or", A: e, B: r.or()}
	}
	return e
}

func (r *recog) and() *gen.Expr {
	e := r.not()
	if r.isW("and") {
		r.i++
		return &gen.Expr{K: "and", A: e, B: r.and()}
	}
	return e
}

func (r *recog) not() *gen.Expr {
	if r.isW("not") {
		r.i++
		return &gen.Expr{K: "not", A: r.not()}
	}
	return r.eq()
}

func (r *recog) binLevel(next func() *gen.Expr, ops ...string) *gen.Expr {
	e := next()
	for {
		matched := false
		for _, op := range ops {
			if r.isP(op) {
				r.i++
				e = &gen.Expr{K: "bin", T: op, A: e, B: next()}
				matched = true
				break
			}
		}
		if !matched {
			return e
		}
	}
}

func (r *recog) eq() *gen.Expr  { return r.binLevel(r.cmp, "==", "!=") }
func (r *recog) cmp() *gen.Expr { return r.binLevel(r.add, "<=", ">=", "<", ">") }
func (r *recog) add() *gen.Expr { return r.binLevel(r.mul, "+", "-") }
func (r *recog) mul() *gen.Expr { return r.binLevel(r.unary, "*", "/") }

func (r *recog) unary() *gen.Expr {
	if r.isP("-") || r.isP("+") {
		k := "neg"
		if r.isP("+") {
			k = "pos"
		}
		r.i++
		return &gen.Expr{K: k, A: r.unary()}
	}
	return r.primary()
}

func (r *recog) primary() *gen.Expr {
	t, ok := r.peek()
	if !ok {
		r.failOperand(r.i)
	}
	switch t.K {
	case gen.KNum:
		k := "float"
		if isIntTok(t.S) {
			k = "int"
			if _, good := ParseIntLit(t.S); !good {
				r.fail(r.i, "badliteral")
			}
		} else if _, good := ParseFloatLit(t.S); !good {
			r.fail(r.i, "badliteral")
		}
		r.i++
		return &gen.Expr{K: k, T: t.S}
	case gen.KStr:
		if _, good := gen.Unquote(t.S); !good {
			r.fail(r.i, "badliteral")
		}
		r.i++
		return &gen.Expr{K: "str", T: t.S}
	case gen.KWord:
		switch t.S {
		case "true", "false", "nil":
			r.i++
			return &gen.Expr{K: t.S}
		case "not":
			// 'not' directly under a tighter operator: outside the documented
			// precedence list (a syntax error in the stated model, Python);
			// the documentation does not settle it
			r.unspec = "'not' as the direct operand of a tighter operator"
			r.i++
			return &gen.Expr{K: "not", A: r.not()}
		default:
			if gen.IsKeyword(t.S) {
				r.failOperand(r.i)
			}
			if !r.isVar(t.S) && r.depth == 0 {
				r.fail(r.i, "undefined")
			}
			r.i++
			return &gen.Expr{K: "id", T: t.S}
		}
	case gen.KPunct:
		if t.S != "(" {
			r.failOperand(r.i)
		}
		r.i++
		e := r.expr()
		if !r.isP(")") {
			r.fail(r.i, "syntax")
		}
		r.i++
		return &gen.Expr{K: "par", A: e}
	}
	panic("unreachable")
}
