// Package ref holds the reference models: R1, an AST interpreter written
// from the language documentation (README "Syntax", "Expressions, data
// conversions", NOTE "Vars, fields and scopes", NEXT "Reflection revamp")
// and the property texts, and R2, a recursive-descent recogniser over
// token lists. Neither shares code with the implementation.
package ref

import (
	"fmt"
	"math"
	"strconv"
	"strings"

	"github.com/wkhere/bcl"

	"verif/gen"
)

// Value is int, float64, string, bool, nil or bcl.Block (a nested block
// read back through its key).
type Value = any

// CompileErr is a static rejection. Exactly one of Node/Stmt locates it.
type CompileErr struct {
	Class string // undefined | redeclared | badliteral | bindselector | bindtarget | bindall
	Node  *gen.Expr
	Stmt  *gen.Stmt
}

// Tok gives the index of the offending token in the rendering.
func (c *CompileErr) Tok(r *gen.Rendered) int {
	switch c.Class {
	case "undefined", "badliteral":
		if c.Node != nil {
			return r.ESpan[c.Node].First
		}
		// bad block name literal
		return r.SSpan[c.Stmt].First + 2
	case "redeclared":
		return r.SSpan[c.Stmt].First + 1
	case "bindselector":
		return r.SSpan[c.Stmt].First + 3
	case "bindtarget", "bindall":
		return stmtLastTok(r, c.Stmt)
	}
	return -1
}

func stmtLastTok(r *gen.Rendered, s *gen.Stmt) int {
	l := r.SSpan[s].Last
	if s.Semi {
		l--
	}
	return l
}

// RuntimeErr is the runtime failure R1 predicts.
type RuntimeErr struct {
	Class    string   // types | type | divzero | unresolved | dupchild | bindnone | bindcount | repeat | nest
	Contains []string // substrings the error text must contain
	Node     *gen.Expr
	Stmt     *gen.Stmt
}

// Tok gives the index of the token after which the error is located.
func (e *RuntimeErr) Tok(r *gen.Rendered) int {
	switch e.Class {
	case "types", "divzero", "repeat":
		return r.OSpan[e.Node.B].Last
	case "type":
		return r.OSpan[e.Node.A].Last
	case "unresolved":
		return r.ESpan[e.Node].First
	case "dupchild", "bindnone", "bindcount":
		return stmtLastTok(r, e.Stmt)
	case "nest":
		// the '{' of the def
		n := r.SSpan[e.Stmt].First + 2
		if e.Stmt.HasBName {
			n++
		}
		return n
	}
	return -1
}

type Outcome struct {
	Compile     *CompileErr
	Lines       []string // what print wrote, one entry per print (with newline)
	Blocks      []bcl.Block
	Binding     bcl.Binding
	Warnings    []*gen.Stmt // bind statements that must have warned, in order
	RT          *RuntimeErr
	Unspecified string // non-empty: the documented rules do not determine the outcome
	MaxDepth    int    // deepest block nesting reached
}

func (o *Outcome) Output() string { return strings.Join(o.Lines, "") }

// ---------- literals ----------

// ParseIntLit gives the value of an int literal: decimal, 0x/0X hex, or
// octal when it has a leading zero. ok is false when malformed or beyond
// the int range.
func ParseIntLit(s string) (int, bool) {
	base := uint64(10)
	digits := s
	switch {
	case len(s) >= 2 && s[0] == '0' && (s[1] == 'x' || s[1] == 'X'):
		base, digits = 16, s[2:]
	case len(s) >= 2 && s[0] == '0':
		base, digits = 8, s[1:]
	}
	if digits == "" {
		return 0, false
	}
	var v uint64
	for i := 0; i < len(digits); i++ {
		c := digits[i]
		var d uint64
		switch {
		case c >= '0' && c <= '9':
			d = uint64(c - '0')
		case c >= 'a' && c <= 'f':
			d = uint64(c-'a') + 10
		case c >= 'A' && c <= 'F':
			d = uint64(c-'A') + 10
		default:
			return 0, false
		}
		if d >= base {
			return 0, false
		}
		if v > (math.MaxInt64-d)/base {
			return 0, false
		}
		v = v*base + d
	}
	return int(v), true
}

// ParseFloatLit: a float literal denotes the nearest float64; out of range
// is malformed.
func ParseFloatLit(s string) (float64, bool) {
	f, err := strconv.ParseFloat(s, 64)
	if err != nil {
		return 0, false
	}
	return f, true
}

// ---------- static pass ----------

type scope struct{ names []string }

type static struct {
	scopes []*scope
	depth  int // block depth
	err    *CompileErr
}

func (s *static) fail(c *CompileErr) {
	if s.err == nil {
		s.err = c
	}
}

func (s *static) isVar(name string) bool {
	for i := len(s.scopes) - 1; i >= 0; i-- {
		for _, n := range s.scopes[i].names {
			if n == name {
				return true
			}
		}
	}
	return false
}

func (s *static) expr(e *gen.Expr) {
	if e == nil || s.err != nil {
		return
	}
	switch e.K {
	case "int":
		if _, ok := ParseIntLit(e.T); !ok {
			s.fail(&CompileErr{Class: "badliteral", Node: e})
		}
	case "float":
		if _, ok := ParseFloatLit(e.T); !ok {
			s.fail(&CompileErr{Class: "badliteral", Node: e})
		}
	case "str":
		if _, ok := gen.Unquote(e.T); !ok {
			s.fail(&CompileErr{Class: "badliteral", Node: e})
		}
	case "id":
		if !s.isVar(e.T) && s.depth == 0 {
			s.fail(&CompileErr{Class: "undefined", Node: e})
		}
	case "asg":
		if !s.isVar(e.T) && s.depth == 0 {
			s.fail(&CompileErr{Class: "undefined", Node: e})
			return
		}
		s.expr(e.A)
	default:
		s.expr(e.A)
		s.expr(e.B)
	}
}

func (s *static) stmts(body []*gen.Stmt) {
	for _, st := range body {
		if s.err != nil {
			return
		}
		switch st.K {
		case "var":
			sc := s.scopes[len(s.scopes)-1]
			for _, n := range sc.names {
				if n == st.Name {
					s.fail(&CompileErr{Class: "redeclared", Stmt: st})
				}
			}
			if s.err != nil {
				return
			}
			// the initializer does not see the new variable
			s.expr(st.E)
			sc.names = append(sc.names, st.Name)
		case "eval", "print", "expr":
			s.expr(st.E)
		case "def":
			if st.HasBName {
				if _, ok := gen.Unquote(st.BNameLit); !ok {
					s.fail(&CompileErr{Class: "badliteral", Stmt: st})
					return
				}
			}
			s.scopes = append(s.scopes, &scope{})
			s.depth++
			s.stmts(st.Body)
			s.depth--
			s.scopes = s.scopes[:len(s.scopes)-1]
		case "bind":
			if st.HasSel {
				ok := false
				switch st.Sel.K {
				case gen.KNum:
					ok = st.Sel.S == "1"
				case gen.KWord:
					ok = st.Sel.S == "first" || st.Sel.S == "last" || st.Sel.S == "all"
				}
				if !ok {
					s.fail(&CompileErr{Class: "bindselector", Stmt: st})
					return
				}
			}
			if st.Target != "struct" && st.Target != "slice" {
				s.fail(&CompileErr{Class: "bindtarget", Stmt: st})
				return
			}
			if st.HasSel && st.Sel.S == "all" && st.Target != "slice" {
				s.fail(&CompileErr{Class: "bindall", Stmt: st})
				return
			}
		}
	}
}

// ---------- evaluation ----------

type variable struct {
	name string
	val  Value
}

type frame struct{ vars []*variable }

type interp struct {
	frames []*frame
	blocks []*bcl.Block
	out    *Outcome
	rt     *RuntimeErr
	unspec string
}

// MaxBlockDepth is the number of blocks that may be open at once. The value
// is an implementation limit that no property fixes (16 on the pinned tree);
// the checks set it at start to what the build under test accepts (see
// props/common_test.go, calibrateLimits), so that R1 predicts the limit error
// where this build raises it.
var MaxBlockDepth = 16

func TypeName(v Value) string {
	switch v.(type) {
	case int:
		return "int"
	case float64:
		return "float"
	case string:
		return "string"
	case bool:
		return "bool"
	case bcl.Block:
		return "block"
	}
	return "nil"
}

// Falsey is the documented falsey set: false, nil, empty string, zero.
func Falsey(v Value) bool {
	switch x := v.(type) {
	case bool:
		return !x
	case int:
		return x == 0
	case float64:
		return x == 0
	case string:
		return x == ""
	case nil:
		return true
	}
	return false // a block
}

func (in *interp) lookupVar(name string) *variable {
	for i := len(in.frames) - 1; i >= 0; i-- {
		vs := in.frames[i].vars
		for j := len(vs) - 1; j >= 0; j-- {
			if vs[j].name == name {
				return vs[j]
			}
		}
	}
	return nil
}

func isNum(v Value) bool {
	switch v.(type) {
	case int, float64:
		return true
	}
	return false
}

func toF(v Value) float64 {
	switch x := v.(type) {
	case int:
		return float64(x)
	case float64:
		return x
	}
	panic("not a number")
}

// OpErr is the failure of one operator application.
type OpErr struct {
	Class    string // types | divzero | repeat
	Contains []string
}

func typesErr(a, b Value) *OpErr {
	return &OpErr{Class: "types", Contains: []string{"invalid types: " + TypeName(a) + ", " + TypeName(b)}}
}

// Binop applies a documented binary operator (+ - * / == != < > <= >=).
// unspec is non-empty when the documented rules do not fix the result.
func Binop(op string, a, b Value) (v Value, err *OpErr, unspec string) {
	_, aInt := a.(int)
	_, bInt := b.(int)
	switch {
	case isNum(a) && isNum(b):
		if op == "/" && bInt && b.(int) == 0 {
			return nil, &OpErr{Class: "divzero", Contains: []string{"division by int zero"}}, ""
		}
		if aInt && bInt {
			x, y := a.(int), b.(int)
			switch op {
			case "+":
				return x + y, nil, ""
			case "-":
				return x - y, nil, ""
			case "*":
				return x * y, nil, ""
			case "/":
				return x / y, nil, ""
			case "==":
				return x == y, nil, ""
			case "!=":
				return x != y, nil, ""
			case "<":
				return x < y, nil, ""
			case ">":
				return x > y, nil, ""
			case "<=":
				return x <= y, nil, ""
			case ">=":
				return x >= y, nil, ""
			}
		}
		x, y := toF(a), toF(b)
		if math.IsNaN(x) || math.IsNaN(y) {
			switch op {
			case "==", "!=", "<", ">", "<=", ">=":
				unspec = "comparison with NaN"
			}
		}
		switch op {
		case "+":
			return x + y, nil, unspec
		case "-":
			return x - y, nil, unspec
		case "*":
			return x * y, nil, unspec
		case "/":
			return x / y, nil, unspec
		case "==":
			return x == y, nil, unspec
		case "!=":
			return x != y, nil, unspec
		case "<":
			return x < y, nil, unspec
		case ">":
			return x > y, nil, unspec
		case "<=":
			return x <= y, nil, unspec
		case ">=":
			return x >= y, nil, unspec
		}
	}
	as, aStr := a.(string)
	bs, bStr := b.(string)
	if aStr && bStr {
		switch op {
		case "+":
			return as + bs, nil, ""
		case "<":
			return as < bs, nil, ""
		case ">":
			return as > bs, nil, ""
		case "<=":
			return as <= bs, nil, ""
		case ">=":
			return as >= bs, nil, ""
		}
	}
	if aStr && op == "+" {
		switch y := b.(type) {
		case int:
			return as + strconv.Itoa(y), nil, ""
		case float64:
			return as + strconv.FormatFloat(y, 'f', -1, 64), nil, ""
		case nil:
			return as, nil, ""
		}
	}
	if aStr && bInt && op == "*" {
		n := b.(int)
		if n < 0 {
			return nil, &OpErr{Class: "repeat", Contains: nil /* wording not fixed by the property or the suite */}, ""
		}
		if n > 0 && len(as) > (1<<20)/n {
			return "", nil, "string repetition beyond 2^20 bytes"
		}
		return strings.Repeat(as, n), nil, ""
	}
	switch op {
	case "==", "!=":
		_, aBlk := a.(bcl.Block)
		_, bBlk := b.(bcl.Block)
		if aBlk && bBlk {
			return nil, typesErr(a, b), ""
		}
		eq := false
		if !aBlk && !bBlk && TypeName(a) == TypeName(b) {
			eq = a == b
		}
		if op == "!=" {
			return !eq, nil, ""
		}
		return eq, nil, ""
	}
	return nil, typesErr(a, b), ""
}

func (in *interp) binop(e *gen.Expr, a, b Value) Value {
	v, oe, unspec := Binop(e.T, a, b)
	if unspec != "" && !strings.Contains(in.unspec, "repetition") {
		// a repetition beyond the memory bound is the stronger reason (such a
		// program must not be executed at all): it is never replaced by another
		in.unspec = unspec
	}
	if oe != nil {
		in.rt = &RuntimeErr{Class: oe.Class, Node: e, Contains: oe.Contains}
		return nil
	}
	return v
}

func (in *interp) eval(e *gen.Expr) Value {
	if in.rt != nil {
		return nil
	}
	switch e.K {
	case "int":
		v, _ := ParseIntLit(e.T)
		return v
	case "float":
		v, _ := ParseFloatLit(e.T)
		return v
	case "str":
		v, _ := gen.Unquote(e.T)
		return v
	case "true":
		return true
	case "false":
		return false
	case "nil":
		return nil
	case "par":
		return in.eval(e.A)
	case "id":
		if v := in.lookupVar(e.T); v != nil {
			return v.val
		}
		// a field: TYPE and NAME read the current block's type and name
		if len(in.blocks) > 0 {
			cur := in.blocks[len(in.blocks)-1]
			switch e.T {
			case "TYPE":
				return cur.Type
			case "NAME":
				return cur.Name
			}
			for i := len(in.blocks) - 1; i >= 0; i-- {
				if v, ok := in.blocks[i].Fields[e.T]; ok {
					return v
				}
			}
		}
		in.rt = &RuntimeErr{Class: "unresolved", Node: e, Contains: []string{"'" + e.T + "'", "not resolved"}}
		return nil
	case "asg":
		v := in.eval(e.A)
		if in.rt != nil {
			return nil
		}
		if vr := in.lookupVar(e.T); vr != nil {
			vr.val = v
		} else {
			in.blocks[len(in.blocks)-1].Fields[e.T] = v
		}
		return v
	case "neg", "pos":
		v := in.eval(e.A)
		if in.rt != nil {
			return nil
		}
		if !isNum(v) {
			in.rt = &RuntimeErr{Class: "type", Node: e, Contains: []string{"invalid type: " + TypeName(v)}}
			return nil
		}
		if e.K == "pos" {
			return v
		}
		switch x := v.(type) {
		case int:
			return -x
		case float64:
			return -x
		}
	case "not":
		v := in.eval(e.A)
		if in.rt != nil {
			return nil
		}
		return Falsey(v)
	case "and":
		a := in.eval(e.A)
		if in.rt != nil {
			return nil
		}
		if Falsey(a) {
			return a
		}
		return in.eval(e.B)
	case "or":
		a := in.eval(e.A)
		if in.rt != nil {
			return nil
		}
		if !Falsey(a) {
			return a
		}
		return in.eval(e.B)
	case "bin":
		a := in.eval(e.A)
		if in.rt != nil {
			return nil
		}
		b := in.eval(e.B)
		if in.rt != nil {
			return nil
		}
		return in.binop(e, a, b)
	}
	panic("ref: unknown expr kind " + e.K)
}

func blockKey(b *bcl.Block) string {
	if b.Name == "" {
		return b.Type
	}
	return b.Type + "." + b.Name
}

func (in *interp) run(body []*gen.Stmt) {
	for _, st := range body {
		if in.rt != nil {
			return
		}
		switch st.K {
		case "var":
			var v Value
			if st.E != nil {
				v = in.eval(st.E)
				if in.rt != nil {
					return
				}
			}
			f := in.frames[len(in.frames)-1]
			f.vars = append(f.vars, &variable{st.Name, v})
		case "eval", "expr":
			in.eval(st.E)
		case "print":
			v := in.eval(st.E)
			if in.rt != nil {
				return
			}
			in.out.Lines = append(in.out.Lines, fmt.Sprintln(v))
		case "def":
			if len(in.blocks) == MaxBlockDepth {
				in.rt = &RuntimeErr{Class: "nest", Stmt: st, Contains: nil /* wording not fixed by the property or the suite */}
				return
			}
			name := ""
			if st.HasBName {
				name, _ = gen.Unquote(st.BNameLit)
			}
			b := &bcl.Block{Type: st.Name, Name: name, Fields: map[string]any{}}
			in.blocks = append(in.blocks, b)
			if len(in.blocks) > in.out.MaxDepth {
				in.out.MaxDepth = len(in.blocks)
			}
			in.frames = append(in.frames, &frame{})
			in.run(st.Body)
			in.frames = in.frames[:len(in.frames)-1]
			in.blocks = in.blocks[:len(in.blocks)-1]
			if in.rt != nil {
				return
			}
			if len(in.blocks) > 0 {
				parent := in.blocks[len(in.blocks)-1]
				k := blockKey(b)
				if _, dup := parent.Fields[k]; dup {
					in.rt = &RuntimeErr{Class: "dupchild", Stmt: st, Contains: nil /* wording not fixed by the property or the suite */}
					return
				}
				parent.Fields[k] = *b
			} else {
				in.out.Blocks = append(in.out.Blocks, *b)
			}
		case "bind":
			if in.out.Binding != nil {
				in.out.Warnings = append(in.out.Warnings, st)
			}
			var cand []bcl.Block
			for _, b := range in.out.Blocks {
				if b.Type == st.Name {
					cand = append(cand, b)
				}
			}
			if len(cand) == 0 {
				in.rt = &RuntimeErr{Class: "bindnone", Stmt: st, Contains: []string{"no blocks of type " + st.Name}}
				return
			}
			sel := "1"
			if st.HasSel {
				sel = st.Sel.S
			}
			if sel == "1" && len(cand) != 1 {
				in.rt = &RuntimeErr{Class: "bindcount", Stmt: st,
					Contains: []string{fmt.Sprintf("found %d blocks of type %s", len(cand), st.Name)}}
				return
			}
			var chosen []bcl.Block
			switch sel {
			case "1", "first":
				chosen = cand[:1]
			case "last":
				chosen = cand[len(cand)-1:]
			case "all":
				chosen = cand
			}
			if st.Target == "struct" {
				in.out.Binding = bcl.StructBinding{Value: chosen[0]}
			} else {
				in.out.Binding = bcl.SliceBinding{Value: chosen}
			}
		}
	}
}

// Run gives the outcome the documentation predicts for p.
func Run(p *gen.Prog) *Outcome {
	out := &Outcome{}
	st := &static{scopes: []*scope{{}}}
	st.stmts(p.Stmts)
	if st.err != nil {
		out.Compile = st.err
		return out
	}
	in := &interp{frames: []*frame{{}}, out: out}
	in.run(p.Stmts)
	out.RT = in.rt
	out.Unspecified = in.unspec
	return out
}
