// Package harness collects what a check run actually covered (cases,
// distinct non-trivial cases, class histograms, samples), writes replay
// files for violations, and flushes everything to the side file named by
// $VERIF_OUT so that the driver (/verif/check) can merge shards into
// /verif/evidence/<ID>.json.
package harness

import (
	"encoding/base64"
	"encoding/binary"
	"encoding/json"
	"fmt"
	"hash/fnv"
	"os"
	"path/filepath"
	"reflect"
	"sort"
	"strings"
	"sync"
	"unicode/utf8"
)

// Fataler is what *rapid.T and *testing.T have in common for our purposes.
type Fataler interface {
	Fatalf(format string, args ...any)
}

type Viol struct {
	Replay string `json:"replay"`
	Msg    string `json:"msg"`
}

type Rec struct {
	mu         sync.Mutex
	Property   string
	evals      int
	nontrivial int
	hashes     map[uint64]struct{}
	hist       map[string]int
	samples    []any
	nsampled   int
	viols      []Viol
	known      map[string]int
	extra      map[string]any
	exhaustive *bool
	scope      string
}

// SetScope names the part of the check that runs now; it becomes part of
// the replay file name, so that the parts of one check (several test
// functions of one property) do not overwrite each other's replay files.
func (r *Rec) SetScope(s string) {
	r.mu.Lock()
	r.scope = s
	r.mu.Unlock()
}

var (
	regMu sync.Mutex
	reg   = map[string]*Rec{}
)

// beyond this many distinct hashes per shard the count is a lower bound
const maxHashes = 1_500_000

// Get returns the collector of a property (one per process and property).
func Get(prop string) *Rec {
	regMu.Lock()
	defer regMu.Unlock()
	r := reg[prop]
	if r == nil {
		r = &Rec{Property: prop, hashes: map[uint64]struct{}{}, hist: map[string]int{},
			known: map[string]int{}, extra: map[string]any{}}
		reg[prop] = r
	}
	return r
}

// Hash of the parts that make a case what it is.
func Hash(parts ...any) uint64 {
	h := fnv.New64a()
	for _, p := range parts {
		switch x := p.(type) {
		case string:
			h.Write([]byte(x))
		case []byte:
			h.Write(x)
		default:
			fmt.Fprintf(h, "%v", x)
		}
		h.Write([]byte{0xff, 0})
	}
	return h.Sum64()
}

// Case counts one executed case. nontrivial is the property's stated rule,
// hash identifies the case for distinctness, feats go to the histogram.
func (r *Rec) Case(nontrivial bool, hash uint64, feats ...string) {
	r.mu.Lock()
	defer r.mu.Unlock()
	r.evals++
	if nontrivial {
		r.nontrivial++
		if len(r.hashes) < maxHashes {
			r.hashes[hash] = struct{}{}
		}
	}
	for _, f := range feats {
		r.hist[f]++
	}
}

// Count adds to a histogram key without counting a case.
func (r *Rec) Count(key string, n int) {
	r.mu.Lock()
	r.hist[key] += n
	r.mu.Unlock()
}

func (r *Rec) SetExtra(key string, v any) {
	r.mu.Lock()
	r.extra[key] = v
	r.mu.Unlock()
}

func (r *Rec) SetExhaustive(b bool) {
	r.mu.Lock()
	r.exhaustive = &b
	r.mu.Unlock()
}

// Sample keeps the first few cases offered and then cases number 2^k, so
// the kept ones are spread over the run without any randomness.
func (r *Rec) Sample(mk func() any) {
	r.mu.Lock()
	defer r.mu.Unlock()
	r.nsampled++
	n := r.nsampled
	if n <= 3 || (n&(n-1)) == 0 && len(r.samples) < 12 {
		r.samples = append(r.samples, mk())
	}
}

var knownSigs []string
var knownOnce sync.Once

func loadKnown() {
	// VERIF_KNOWN: JSON list of signatures (from KNOWN_FINDINGS.txt known: lines)
	if s := os.Getenv("VERIF_KNOWN"); s != "" {
		json.Unmarshal([]byte(s), &knownSigs)
	}
}

// Known tells whether msg matches a signature listed as a known finding.
func Known(msg string) (string, bool) {
	knownOnce.Do(loadKnown)
	for _, k := range knownSigs {
		if k != "" && strings.Contains(msg, k) {
			return k, true
		}
	}
	return "", false
}

// Fail records a violation: writes the replay file and fails the test.
// If the violation matches a known finding it is only counted and Fail
// returns (the caller should then just return).
func (r *Rec) Fail(t Fataler, caseObj any, format string, args ...any) {
	msg := fmt.Sprintf(format, args...)
	if sig, ok := Known(msg); ok {
		r.mu.Lock()
		r.known[sig]++
		r.mu.Unlock()
		return
	}
	path := r.writeReplay(caseObj, msg)
	r.mu.Lock()
	// rapid re-runs the property while shrinking; keep one entry per file
	found := false
	for i := range r.viols {
		if r.viols[i].Replay == path {
			r.viols[i].Msg = msg
			found = true
		}
	}
	if !found {
		r.viols = append(r.viols, Viol{path, msg})
	}
	r.mu.Unlock()
	flushOne(r)
	t.Fatalf("VIOLATION-DETAIL property=%s replay=%s: %s", r.Property, path, msg)
}

func (r *Rec) writeReplay(caseObj any, msg string) string {
	dir := os.Getenv("VERIF_REPLAY_DIR")
	if dir == "" {
		dir = filepath.Join(os.TempDir(), "verif-replays")
	}
	os.MkdirAll(dir, 0o755)
	tag := os.Getenv("VERIF_SHARD")
	if tag == "" {
		tag = "x"
	}
	sub := os.Getenv("VERIF_REPLAY_TAG")
	r.mu.Lock()
	if r.scope != "" {
		sub = "-" + r.scope + sub
	}
	r.mu.Unlock()
	path := filepath.Join(dir, fmt.Sprintf("%s-%s%s.json", r.Property, tag, sub))
	obj := map[string]any{"property": r.Property, "case": caseObj, "violation": msg}
	b, err := MarshalSafe(obj, true)
	if err != nil {
		b, _ = json.Marshal(map[string]any{"property": r.Property, "violation": msg, "marshal_error": err.Error()})
	}
	os.WriteFile(path, b, 0o644)
	return path
}

type shardOut struct {
	Property   string         `json:"property"`
	Evals      int            `json:"evals"`
	Nontrivial int            `json:"nontrivial"`
	Distinct   int            `json:"distinct"`
	Hist       map[string]int `json:"hist"`
	Samples    []any          `json:"samples"`
	Viols      []Viol         `json:"violations"`
	Known      map[string]int `json:"known"`
	Extra      map[string]any `json:"extra"`
	Exhaustive *bool          `json:"exhaustive,omitempty"`
	HashFile   string         `json:"hash_file"`
}

func flushOne(r *Rec) {
	out := os.Getenv("VERIF_OUT")
	if out == "" {
		return
	}
	r.mu.Lock()
	defer r.mu.Unlock()
	base := out + "." + r.Property
	hs := make([]uint64, 0, len(r.hashes))
	for h := range r.hashes {
		hs = append(hs, h)
	}
	sort.Slice(hs, func(i, j int) bool { return hs[i] < hs[j] })
	hb := make([]byte, 8*len(hs))
	for i, h := range hs {
		binary.LittleEndian.PutUint64(hb[8*i:], h)
	}
	os.WriteFile(base+".hashes", hb, 0o644)
	so := shardOut{r.Property, r.evals, r.nontrivial, len(r.hashes), r.hist, r.samples,
		r.viols, r.known, r.extra, r.exhaustive, base + ".hashes"}
	b, err := json.Marshal(so)
	if err != nil {
		so.Samples = []any{fmt.Sprintf("unmarshalable samples: %v", err)}
		b, _ = json.Marshal(so)
	}
	os.WriteFile(base+".json", b, 0o644)
}

// Flush writes all collectors; call from TestMain after m.Run().
func Flush() {
	regMu.Lock()
	rs := make([]*Rec, 0, len(reg))
	for _, r := range reg {
		rs = append(rs, r)
	}
	regMu.Unlock()
	for _, r := range rs {
		flushOne(r)
	}
}

// LoadReplay reads the "case" member of a replay file into v.
func LoadReplay(path string, v any) error {
	b, err := os.ReadFile(path)
	if err != nil {
		return err
	}
	var obj struct {
		Case json.RawMessage `json:"case"`
	}
	if err := json.Unmarshal(b, &obj); err != nil {
		return err
	}
	return UnmarshalSafe(obj.Case, v)
}

// ---------- JSON that survives arbitrary bytes in strings ----------

// encoding/json replaces invalid UTF-8 in strings by U+FFFD, which would
// silently change sources that carry arbitrary bytes in comments. Strings
// that are not valid UTF-8 are therefore written as "\x00b64:<base64>" and
// decoded again on load.

const b64Marker = "\x00b64:"

func escapeCopy(v reflect.Value) reflect.Value {
	switch v.Kind() {
	case reflect.String:
		s := v.String()
		if !utf8.ValidString(s) || strings.HasPrefix(s, b64Marker) {
			out := reflect.New(v.Type()).Elem()
			out.SetString(b64Marker + base64.StdEncoding.EncodeToString([]byte(s)))
			return out
		}
		return v
	case reflect.Pointer:
		if v.IsNil() {
			return v
		}
		out := reflect.New(v.Type().Elem())
		out.Elem().Set(escapeCopy(v.Elem()))
		return out
	case reflect.Interface:
		if v.IsNil() {
			return v
		}
		out := reflect.New(v.Type()).Elem()
		out.Set(escapeCopy(v.Elem()))
		return out
	case reflect.Struct:
		out := reflect.New(v.Type()).Elem()
		out.Set(v)
		for i := 0; i < v.NumField(); i++ {
			if out.Field(i).CanSet() {
				out.Field(i).Set(escapeCopy(v.Field(i)))
			}
		}
		return out
	case reflect.Slice:
		if v.IsNil() || v.Type().Elem().Kind() == reflect.Uint8 {
			return v
		}
		out := reflect.MakeSlice(v.Type(), v.Len(), v.Len())
		for i := 0; i < v.Len(); i++ {
			out.Index(i).Set(escapeCopy(v.Index(i)))
		}
		return out
	case reflect.Map:
		if v.IsNil() {
			return v
		}
		out := reflect.MakeMapWithSize(v.Type(), v.Len())
		it := v.MapRange()
		for it.Next() {
			out.SetMapIndex(it.Key(), escapeCopy(it.Value()))
		}
		return out
	}
	return v
}

func unescapeInPlace(v reflect.Value) {
	switch v.Kind() {
	case reflect.String:
		if s := v.String(); strings.HasPrefix(s, b64Marker) && v.CanSet() {
			if raw, err := base64.StdEncoding.DecodeString(s[len(b64Marker):]); err == nil {
				v.SetString(string(raw))
			}
		}
	case reflect.Pointer, reflect.Interface:
		if !v.IsNil() {
			if v.Kind() == reflect.Interface {
				// interface values are not addressable: rebuild
				inner := reflect.New(v.Elem().Type()).Elem()
				inner.Set(v.Elem())
				unescapeInPlace(inner)
				if v.CanSet() {
					v.Set(inner)
				}
				return
			}
			unescapeInPlace(v.Elem())
		}
	case reflect.Struct:
		for i := 0; i < v.NumField(); i++ {
			if v.Field(i).CanSet() {
				unescapeInPlace(v.Field(i))
			}
		}
	case reflect.Slice:
		if v.Type().Elem().Kind() == reflect.Uint8 {
			return
		}
		for i := 0; i < v.Len(); i++ {
			unescapeInPlace(v.Index(i))
		}
	case reflect.Map:
		it := v.MapRange()
		for it.Next() {
			val := reflect.New(it.Value().Type()).Elem()
			val.Set(it.Value())
			unescapeInPlace(val)
			v.SetMapIndex(it.Key(), val)
		}
	}
}

// MarshalSafe is json.Marshal that keeps strings with arbitrary bytes intact.
func MarshalSafe(v any, indent bool) ([]byte, error) {
	if v == nil {
		return json.Marshal(v)
	}
	c := escapeCopy(reflect.ValueOf(v)).Interface()
	if indent {
		return json.MarshalIndent(c, "", " ")
	}
	return json.Marshal(c)
}

// UnmarshalSafe is the inverse; v must be a pointer.
func UnmarshalSafe(b []byte, v any) error {
	if err := json.Unmarshal(b, v); err != nil {
		return err
	}
	unescapeInPlace(reflect.ValueOf(v))
	return nil
}
