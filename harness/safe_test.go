package harness
import ("testing";"reflect")
type inner struct{ S string; L []string; M map[string]any; P *inner }
func TestSafe(t *testing.T){
 v:=inner{S:"a\xffb",L:[]string{"ok","\xc3"},M:map[string]any{"k":"\xe2\x82","n":1.0,"sub":[]any{"x\xfe"}},P:&inner{S:"\x00b64:zz"}}
 b,err:=MarshalSafe(map[string]any{"case":v},true); if err!=nil{t.Fatal(err)}
 var out struct{Case inner `json:"case"`}
 if err:=UnmarshalSafe(b,&out);err!=nil{t.Fatal(err)}
 if !reflect.DeepEqual(out.Case,v){t.Fatalf("got %#v\nwant %#v\njson %s",out.Case,v,b)}
}
