#!/usr/bin/env python3
"""Runs tools/seedeval.sh for every seeded mutant under /verif/seeded against the check of its own property
(plus extra checks named on the command line as ID=check1,check2), records the outcome in each meta.json under
"verification" and writes seeded/RESULTS.md."""
import json, os, re, subprocess, sys, time
ROOT = os.path.dirname(os.path.dirname(os.path.abspath(__file__)))
extra = {"C17-m10": ["C04"], "C01-m10": ["C02", "C03"], "C04-m10": ["C19"], "C05-m10": ["C03"], "C06-m9": ["C15"], "C06-m10": ["C05"], "C08-m10": ["C09"], "C11-m9": ["C18"], "C12-m10": ["C11"], "C16-m10": ["C18"], "C18-m10": ["C09"], "C19-m10": ["C18"], "C20-m10": ["C03"], "C20-m9": ["C17"], "C03-m10": ["C10"], "C09-m9": ["C14"], "C14-m9": ["C09"], "C14-m8": ["C18"], "C17-m7": ["C20"], "C06-m8": ["C10", "C02"], "C10-m6": ["C01"], "C08-m7": ["C16"], "C05-m7": ["C15"], "C18-m7": ["C09"], "C04-m7": ["C09"], "C11-m8": ["C07"], "C07-m7": ["C11"], "C18-m5": ["C07"], "C03-m5": ["C04"], "C19-m5": ["C12"], "C12-m5": ["C19"], "C08-m6": ["C07"], "C20-m5": ["C07"], "C07-m6": ["C08"], "C17-m6": ["C04"], "C04-m5": ["C17"], "C06-m5": ["C15"], "C14-m5": ["C09"], "C14-m6": ["C09"], "C16-m5": ["C15"], "C05-m3": ["C10", "C14"], "C01-m3": ["C10"], "C04-m4": ["C10"], "C06-m4": ["C10", "C02"], "C09-m3": ["C14"], "C14-m3": ["C10", "C01"], "C20-m4": ["C07"], "C08-m3": ["C16"], "C16-m4": ["C08"], "C19-m3": ["C08"], "C18-m3": ["C09"], "C02-m4": ["C10"], "C20-m1": ["C07"], "C06-m1": ["C17"], "C12-m1": ["C11"], "C14-m1": ["C09"], "C14-m2": ["C09"], "C07-m1": ["C08"], "C08-m1": ["C07"]}
rows = []
only = [a for a in sys.argv[1:] if not a.startswith("--")]
table_only = "--table-only" in sys.argv
for d in sorted(os.listdir(os.path.join(ROOT, "seeded"))):
    p = os.path.join(ROOT, "seeded", d)
    if not os.path.isdir(p) or not os.path.exists(os.path.join(p, "patch.diff")):
        continue
    if only and d not in only:
        continue
    pid = d.split("-")[0]
    if table_only:
        meta = json.load(open(os.path.join(p, "meta.json")))
        rows.append((d, meta.get("summary", "")[:150].replace("\n", " ").replace("|", "/"), meta.get("verification", {"checks": {}, "demo_passes_on_clean_tree": False, "suite_passes_with_mutant": False})))
        continue
    checks = [pid] + extra.get(d, [])
    t0 = time.time()
    r = subprocess.run([os.path.join(ROOT, "tools", "seedeval.sh"), p] + checks, capture_output=True, text=True, env=dict(os.environ, SHOW="3"))
    out = r.stdout + r.stderr
    ver = {
        "demo_passes_on_clean_tree": "demo on clean tree: PASS" in out,
        "demo_fails_with_mutant": "demo with mutant: FAIL (expected)" in out,
        "suite_passes_with_mutant": "suite with mutant: PASS" in out,
        "checks": {},
        "ran": "tools/seedeval.sh (scratch worktree for the demo; git apply to /repo, ./check <ID> quick, git checkout)",
    }
    for m in re.finditer(r"== check (C\d+) quick: rc=(\d+)", out):
        ver["checks"][m.group(1)] = "caught (VIOLATION)" if m.group(2) == "1" else ("not caught" if m.group(2) == "0" else "inconclusive")
    first = re.search(r"VIOLATION property=\S+ replay=\S+\n((?:  .*\n){1,3})", out)
    if first:
        ver["first_violation"] = first.group(1).strip()[:400]
    meta_p = os.path.join(p, "meta.json")
    meta = json.load(open(meta_p))
    meta["verification"] = ver
    json.dump(meta, open(meta_p, "w"), indent=1)
    rows.append((d, meta.get("summary", "")[:150].replace("\n", " ").replace("|", "/"), ver))
    print(d, ver["checks"], "%.0fs" % (time.time() - t0), flush=True)
if not only or table_only:
    with open(os.path.join(ROOT, "seeded", "RESULTS.md"), "w") as f:
        f.write("# Seeded mutants and which checks catch them\n\nEach directory holds patch.diff, the demonstration and meta.json (incl. the verification record).\n"
                "All were confirmed: the stock suite passes with the mutant, the demonstration fails with it and passes without.\n\n")
        f.write("| mutant | what was changed | demo ok | caught by (quick tier, VERIF_SEED=1) |\n|---|---|---|---|\n")
        for d, summ, ver in rows:
            ok = ver["demo_passes_on_clean_tree"] and ver["suite_passes_with_mutant"]
            f.write("| %s | %s | %s | %s |\n" % (d, summ, "yes" if ok else "CHECK", "; ".join("%s: %s" % kv for kv in ver["checks"].items())))
