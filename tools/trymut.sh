#!/bin/bash
# usage: tools/trymut.sh <patch-file> <ID> [<ID>...]   (tier from $TIER, default quick)
# Applies a patch to /repo, runs the stock test suite and the given checks, and reverts.
set -u
patch=$1; shift
export GOFLAGS=-mod=mod GOPROXY=off GOSUMDB=off GOTOOLCHAIN=local
if [ -n "$(git -C /repo status --porcelain)" ]; then echo "repo not clean"; exit 3; fi
git -C /repo apply "$patch" || { echo "patch does not apply"; exit 3; }
trap 'git -C /repo checkout -- . ; git -C /repo clean -fdq' EXIT
if (cd /repo && go build ./... && go test -vet=off -count=1 ./... >/dev/null 2>&1); then echo "stock tests: PASS"; else echo "stock tests: FAIL"; fi
for id in "$@"; do
  out=$(cd /verif && ./check $id ${TIER:-quick} 2>&1); rc=$?
  echo "== $id rc=$rc"; echo "$out" | grep -E "VIOLATION|INCONCLUSIVE|cases," | head -5
  echo "$out" | grep -A12 "VIOLATION" | head -${SHOW:-14}
done
git -C /verif checkout -- evidence 2>/dev/null
