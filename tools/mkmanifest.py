#!/usr/bin/env python3
"""Writes MANIFEST.json from checks.json (the single source of per-check configuration)."""
import json, os
ROOT=os.path.dirname(os.path.dirname(os.path.abspath(__file__)))
cf=json.load(open(os.path.join(ROOT,"checks.json")))
props=[json.loads(l) for l in open(os.path.join(ROOT,"properties.jsonl"))]
checks=[]; na=[]
for p in props:
    pid=p["id"]
    c=cf.get(pid)
    if not c or c.get("disabled"):
        na.append({"property_id":pid,"reason":(c or {}).get("disabled","check not built yet (work in progress); the design in DESIGN.md section 3 applies")})
        continue
    checks.append({
        "property_id":pid,
        "quick_cmd":"./check %s quick"%pid,
        "thorough_cmd":"./check %s thorough"%pid,
        "evidence_file":"/verif/evidence/%s.json"%pid,
        "replay_cmd_template":"./check %s --replay {path}"%pid,
        "engine":"rapid-props",
        "level_claimed":{"category":"exploration","text":c["level_text"],"design_ref":"DESIGN.md section 3, "+pid},
        "level_note":c["level_note"],
        "technique":c["technique"],
    })
m={
 "version":1,
 "setup_cmd":"./setup.sh",
 "hooks":{"guard":"verif","enable":"go build/test -tags verif (no hook code exists; the tag is passed so that one could be added without changing commands)",
          "baseline_off_cmd":"cd /repo && go test -vet=off -count=1 ./...","source_commits":[],"add_only":True},
 "engines":[{"name":"rapid-props","path":"/verif/props","serves_properties":[c["property_id"] for c in checks],
             "kind_free_text":"property-based tests (pgregory.net/rapid v1.3.0) over shared generators (gen/), reference models (ref/, bc/), sharded and merged by the python driver ./check"}],
 "checks":checks,
 "not_applicable":na,
 "notes":"All checks rebuild from /repo's working tree (module replace => /repo). Exit 0 held / 1 VIOLATION / 2 inconclusive. See DESIGN.md.",
}
json.dump(m,open(os.path.join(ROOT,"MANIFEST.json"),"w"),indent=1)
print("claimed",len(checks),"not_applicable",len(na))
