#!/usr/bin/env python3
"""mkmut.py <out.patch> <file> <old> <new> [<file> <old> <new> ...]: build a patch against /repo by text replacement (repo is restored)."""
import subprocess, sys
out = sys.argv[1]; args = sys.argv[2:]
assert subprocess.run(["git","-C","/repo","status","--porcelain"],capture_output=True,text=True).stdout=="" , "repo not clean"
try:
    for i in range(0,len(args),3):
        f,old,new = args[i:i+3]
        p="/repo/"+f; s=open(p).read()
        assert s.count(old)>=1, "pattern not found: "+old
        s=s.replace(old,new,1); open(p,"w").write(s)
    d=subprocess.run(["git","-C","/repo","diff"],capture_output=True,text=True).stdout
    open(out,"w").write(d)
finally:
    subprocess.run(["git","-C","/repo","checkout","--","."])
print("wrote",out,len(d),"bytes")
