#!/bin/bash
# usage: tools/runsome.sh <quick|thorough> <seed> <ID>...   — runs the named checks, one line each
tier=$1; seed=$2; shift 2
cd "$(dirname "$0")/.."
for id in "$@"; do
  out=$(VERIF_SEED=$seed ./check $id $tier 2>&1); rc=$?
  echo "seed=$seed rc=$rc $(echo "$out" | grep -a -E 'cases,' | tail -1)"
  if [ $rc -ne 0 ]; then echo "$out" | grep -a -E "VIOLATION|INCONCLUSIVE" -A8 | head -40; fi
done
