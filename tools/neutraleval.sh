#!/bin/bash
# usage: tools/neutraleval.sh <neutral-dir> [ID...]   (default: all twenty checks)
# Applies a neutral change (one that keeps every property true) to /repo, runs the quick tier of the given
# checks, reverts. Every check must stay silent: a VIOLATION here is a false alarm (or the change is not neutral).
set -u
d=$1; shift
ids=${@:-C01 C02 C03 C04 C05 C06 C07 C08 C09 C10 C11 C12 C13 C14 C15 C16 C17 C18 C19 C20}
export GOFLAGS=-mod=mod GOPROXY=off GOSUMDB=off GOTOOLCHAIN=local
REPO=${VERIF_DEV_REPO:-/repo}; ROOT=${VERIF_DEV_ROOT:-/verif}
if [ -n "$(git -C $REPO status --porcelain)" ]; then echo "repo not clean"; exit 3; fi
trap 'git -C $REPO checkout -q -- . ; git -C $REPO clean -fdq' EXIT
git -C $REPO apply $d/patch.diff || { echo "patch does not apply"; exit 3; }
( cd $REPO && go build ./... && go test -vet=off -count=1 ./... >/dev/null 2>&1 ) && echo "suite with change: PASS" || echo "suite with change: FAIL"
cd $ROOT
for id in $ids; do
  out=$(./check $id ${TIER:-quick} 2>&1); rc=$?
  echo "== $(basename $d) check $id: rc=$rc $(echo "$out" | grep -E 'cases,' | tail -1)"
  if [ $rc -ne 0 ]; then echo "$out" | grep -E -A${SHOW:-5} "^VIOLATION|INCONCLUSIVE" | head -${SHOW:-12} | cut -c1-400; fi
done
[ "$ROOT" = /verif ] && git -C /verif checkout -- evidence 2>/dev/null
