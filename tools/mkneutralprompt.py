#!/usr/bin/env python3
"""Writes the task text for sub-agents that write *neutral* changes (changes a maintainer might make that keep
every listed property true): tools/mkneutralprompt.py <round-dir> <worktree-root> [ID...]
The checks must stay silent on such changes; an alarm on one of them is either a property the change does break
after all, or an over-specified check."""
import json, os, sys
ROOT = os.path.dirname(os.path.dirname(os.path.abspath(__file__)))
rd, wt = sys.argv[1], sys.argv[2]
ids = sys.argv[3:]
props = {}
for l in open(os.path.join(ROOT, "properties.jsonl")):
    p = json.loads(l); props[p["id"]] = p
alltxt = "\n\n".join("%s — %s\n%s\n(quantified over: %s)" % (k, p["title"], p["statement"], p["quantifier"]["text"]) for k, p in sorted(props.items()))
for pid in ids or sorted(props):
    p = props[pid]
    d = os.path.join(rd, pid); os.makedirs(d, exist_ok=True)
    w = os.path.join(wt, pid)
    open(os.path.join(d, "PROPERTIES.txt"), "w").write(alltxt)
    files = ", ".join(p["anchors"]["files"])
    open(os.path.join(d, "PROMPT.txt"), "w").write(f"""You are helping to evaluate a verification harness for a Go library by writing *neutral changes*: changes a maintainer might really make that do NOT break any of the library's stated properties. A good harness must stay silent on them.

The library is wkhere/bcl (BCL: a small HCL-like configuration language with a streaming lexer, Pratt parser emitting bytecode, a stack VM, bytecode dump/load, reflection-based struct binding, and a CLI in cmd/bcl). You have your own scratch git worktree of it at {w} (a detached checkout). Work ONLY inside {w} and {d}. Never touch /repo or /verif, never commit anything anywhere.

Every shell command needs: export GOFLAGS=-mod=mod GOPROXY=off GOSUMDB=off GOTOOLCHAIN=local   (no network is available). The test suite is run with: cd {w} && go test -vet=off -count=1 ./...

The twenty properties that users rely on are in {d}/PROPERTIES.txt (read all of them). Your focus area is the code behind property {pid} ("{p['title']}"), mainly: {files}.

Task: produce THREE different, independent changes to the library source (non-test .go files) in your focus area such that each one
 1. keeps ALL twenty properties true, read literally and carefully (if in doubt whether a property still holds, choose another change),
 2. compiles and keeps the existing test suite green (run it),
 3. is something a maintainer would plausibly do, and really changes something: the internal structure, the order of internal steps, buffer or page sizes, data structures, the goroutine/channel structure, an algorithm replaced by an equivalent one, OR an observable detail that no property fixes and no test pins — for example the wording of a message whose wording no property and no test fixes, the formatting of output whose format no property fixes (trace lines, statistics, listing columns that the tests do not pin), the order or de-duplication of the constant pool, the choice among several outcomes a property explicitly allows, the timing of an internal step. Prefer changes of this second, observable-but-unspecified kind for at least two of the three: they are the ones that expose an over-specified check.
 4. is NOT a no-op (not just renaming a variable or adding a comment).

For each change think hard about whether some property is violated after all (for instance "byte-identical compiled program", "same diagnostic text", "format version 1.1 is stable", "exit status", positions 'line:column'); a change that alters the bytes of a dump for the same source, the text of diagnostics across chunkings, or the documented file layout is NOT neutral.

Deliverables, for k = 1, 2, 3, in {d}/n<k>/ :
  - patch.diff : output of `git diff` for the change alone, applicable with `git apply` to a clean checkout of the same commit
  - meta.json  : {{"focus": "{pid}", "summary": "<one paragraph: what was changed>", "observable": "<what, if anything, a caller can observe differently>", "why_neutral": "<for the properties that come closest: why each still holds>", "ran": "<suite result with the change>"}}

Procedure hint: make a change, run the suite, `git diff > {d}/n1/patch.diff`, `git checkout -- .`, next. At the end leave the worktree clean.

Final answer: a short report listing for each change the summary, what is observable, and the argument why it is neutral. Nothing else.
""")
    print(pid)
