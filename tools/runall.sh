#!/bin/bash
# usage: tools/runall.sh <quick|thorough> [seed ...]   — runs every check, prints one line per check
tier=${1:-quick}; shift
seeds=${@:-1}
cd "$(dirname "$0")/.."
for seed in $seeds; do
  for i in 01 02 03 04 05 06 07 08 09 10 11 12 13 14 15 16 17 18 19 20; do
    out=$(VERIF_SEED=$seed ./check C$i $tier 2>&1); rc=$?
    echo "seed=$seed rc=$rc $(echo "$out" | grep -E 'cases,' | tail -1)"
    if [ $rc -ne 0 ]; then echo "$out" | grep -E "VIOLATION|INCONCLUSIVE" -A8 | head -40; fi
  done
done
