#!/usr/bin/env python3
"""Writes the self-contained task text handed to a fresh sub-agent that is to write seeded changes for one property:
   tools/mkseedprompt.py <round-dir> <worktree-root> <first-k> [ID...]
The agent gets the property text, its scratch worktree and one-line summaries of the seeded changes that exist already
(so that it writes different ones); it gets nothing about the checks."""
import json, os, sys
ROOT = os.path.dirname(os.path.dirname(os.path.abspath(__file__)))
rd, wt, k0 = sys.argv[1], sys.argv[2], int(sys.argv[3])
ids = sys.argv[4:]
props = {}
for l in open(os.path.join(ROOT, "properties.jsonl")):
    p = json.loads(l); props[p["id"]] = p
for pid in ids or sorted(props):
    p = props[pid]
    d = os.path.join(rd, pid); os.makedirs(d, exist_ok=True)
    prev = []
    for s in sorted(os.listdir(os.path.join(ROOT, "seeded"))):
        if s.startswith(pid + "-"):
            prev.append("- " + json.load(open(os.path.join(ROOT, "seeded", s, "meta.json")))["summary"][:420].replace("\n", " "))
    ptxt = "Property %s: %s\n\nStatement: %s\n\nQuantified over: %s\n" % (pid, p["title"], p["statement"], p["quantifier"]["text"])
    open(os.path.join(d, "PROPERTY.txt"), "w").write(ptxt)
    w = os.path.join(wt, pid)
    open(os.path.join(d, "PROMPT.txt"), "w").write(f"""You are helping to evaluate a verification harness by writing *seeded defects* for a Go library.

The library is wkhere/bcl (BCL: a small HCL-like configuration language with a streaming lexer, Pratt parser emitting bytecode, a stack VM, bytecode dump/load, reflection-based struct binding, and a CLI in cmd/bcl). You have your own scratch git worktree of it at {w} (a detached checkout). Work ONLY inside {w} and {d}. Never touch /repo or /verif, never commit anything anywhere.

Every shell command needs: export GOFLAGS=-mod=mod GOPROXY=off GOSUMDB=off GOTOOLCHAIN=local   (no network is available). The test suite is run with: cd {w} && go test -vet=off -count=1 ./...

The property under study (also in {d}/PROPERTY.txt):

{ptxt}

IMPORTANT: {len(prev)} seeded defects for this property already exist; yours must be DIFFERENT in mechanism and location from all of them, and should attack a clause or a region of the property's statement that they leave untouched:
{chr(10).join(prev)}

Assume the property is already being checked by randomized, generator-based testing (thousands of random programs / inputs / read schedules per run, including many sizes around the obvious limits such as 240/241, 255/256, 1024, 4096, 65535). Design your two defects so that such random testing is UNLIKELY to stumble on them: they should need a conjunction of two or three specific, individually plausible conditions (a particular value AND a particular position AND a particular preceding operation), a specific history, or a rarely combined pair of language features or API options - while still being realistic slips that a reviewer could miss, and still clearly violating the property's statement for inputs inside its stated domain. Do not key a defect on a magic constant that no real code would contain (e.g. `if len(s) == 7777`): the condition must arise from the code's own structure (buffer sizes, size classes, type switches, state left by an earlier step, an option flag, a nesting context).

Task: produce TWO different, independent changes (mutants) to the library source (non-test .go files in the worktree) such that each one:
 1. BREAKS the property above (for some input / schedule / history inside the property's stated domain its statement becomes false),
 2. still compiles, and the existing test suite still passes completely with the change (run it and confirm),
 3. is *realistic and subtle* (a plausible refactoring slip, an off-by-one at a boundary, a forgotten case, an "optimisation" that is wrong in a corner, two cooperating sites that each look fine alone). The two mutants should have different root causes / touch different mechanisms.
 4. comes with a demonstration: a Go test file (package bcl or bcl_test, placed in the worktree root for running, e.g. zz_demo_test.go; for the CLI a test that builds and runs cmd/bcl) that FAILS with the change applied and PASSES on the unchanged worktree. Confirm both directions yourself.

Read the source first (api.go lex.go parse.go machine.go oplogic.go value.go prog.go encoding.go disasm.go linecalc.go reflect.go bind.go option.go cmd/bcl/*.go, README.md) to find where the property is implemented.

Deliverables, for k = {k0} and {k0+1}, in {d}/m<k>/ :
  - patch.diff   : output of `git diff` for the mutant alone (source change only, NOT including the demo file), applicable with `git apply` to a clean checkout of the same commit
  - the demo file(s) (e.g. zz_demo_test.go), and
  - meta.json    : {{"property": "{pid}", "summary": "<one paragraph: what was changed>", "needs": "<what specific input/sequence/schedule is needed for it to manifest>", "demo_cmd": "<command that runs the demo from the worktree root>", "ran": "<what you ran and observed: suite passes with mutant; demo fails with mutant; demo passes without>"}}

Procedure hint: make the first mutant, run the suite, write the demo, verify it fails; `git diff -- . ':!zz_*' > {d}/m{k0}/patch.diff`; copy the demo; `git checkout -- .` (keep or re-copy the demo) and verify the demo passes on the clean tree; repeat for the second. At the end leave the worktree clean (`git checkout -- . && git clean -fdq`).

Final answer: a short report listing for each mutant the summary, what it needs to manifest, and confirmation of the three runs. Do not include anything else.
""")
    print(pid, len(prev))
