#!/bin/bash
# usage: tools/seedeval.sh <seed-dir> <ID> [<ID>...]
# 1. verifies the seeded mutant in a scratch worktree: suite passes with patch, demo fails with patch, demo passes without
# 2. applies it to /repo, runs the given checks (tier $TIER, default quick), reverts
set -u
d=$1; shift
export GOFLAGS=-mod=mod GOPROXY=off GOSUMDB=off GOTOOLCHAIN=local
W=$(mktemp -d /tmp/seedeval.XXXX)
git -C /repo worktree add -q --detach $W/wt HEAD || exit 3
cleanup() { git -C /repo worktree remove --force $W/wt 2>/dev/null; rm -rf $W; git -C /repo checkout -- . ; git -C /repo clean -fdq; }
trap cleanup EXIT
cd $W/wt
demos=$(ls $d | grep -v -E 'patch.diff|meta.json')
cp -r $(for f in $demos; do echo $d/$f; done) . 2>/dev/null
if go test -vet=off -count=1 ./... >$W/clean.log 2>&1; then echo "demo on clean tree: PASS"; else echo "demo on clean tree: FAIL (unexpected)"; tail -5 $W/clean.log; fi
git apply $d/patch.diff || { echo "patch does not apply"; exit 3; }
if go test -vet=off -count=1 ./... >$W/mut.log 2>&1; then echo "demo+suite with mutant: PASS (unexpected: demo should fail)"; else echo "demo with mutant: FAIL (expected)"; fi
for f in $demos; do rm -rf $f; done
if go test -vet=off -count=1 ./... >$W/suite.log 2>&1; then echo "suite with mutant: PASS"; else echo "suite with mutant: FAIL (mutant invalid)"; tail -5 $W/suite.log; fi
cd /verif
if [ -n "$(git -C /repo status --porcelain)" ]; then echo "repo not clean"; exit 3; fi
git -C /repo apply $d/patch.diff
for id in "$@"; do
  out=$(./check $id ${TIER:-quick} 2>&1); rc=$?
  echo "== check $id ${TIER:-quick}: rc=$rc"; echo "$out" | grep -E "INCONCLUSIVE|cases," | head -3
  echo "$out" | grep -A${SHOW:-6} "^VIOLATION" | head -${SHOW:-8} | cut -c1-400
done
git -C /verif checkout -- evidence 2>/dev/null
