#!/usr/bin/env python3
"""Runs tools/neutraleval.sh for every neutral change under /verif/neutral (or the ones named on the command line)
against the checks whose code area the change touches (--all: against all twenty), records the outcome in each
meta.json under "verification" and writes neutral/RESULTS.md.  Every check must stay silent."""
import json, os, re, subprocess, sys, time
ROOT = os.path.dirname(os.path.dirname(os.path.abspath(__file__)))
ALL = ["C%02d" % i for i in range(1, 21)]
M = {"machine.go": "C01 C02 C03 C04 C06 C08 C09 C10 C14 C16 C18 C19", "oplogic.go": "C01 C02 C10 C14", "value.go": "C01 C19 C14",
     "parse.go": "C01 C02 C04 C06 C07 C08 C10 C16 C17 C18 C19 C20", "reflect.go": "C05 C15 C16 C12 C06",
     "api.go": "C06 C07 C08 C09 C11 C12 C13 C16 C18 C19", "lex.go": "C06 C07 C08 C11 C12 C17 C20", "linecalc.go": "C07 C08 C12 C16",
     "prog.go": "C06 C09 C13 C14 C16 C18", "encoding.go": "C09 C13 C14 C06", "disasm.go": "C08 C09 C14 C18 C19",
     "printstats.go": "C18 C19 C10", "option.go": "C19 C12 C18", "bind.go": "C04 C14", "cmd/bcl/main.go": "C18 C14", "cmd/bcl/args.go": "C18"}
args = [a for a in sys.argv[1:] if not a.startswith("--")]
every = "--all" in sys.argv
table_only = "--table-only" in sys.argv
rows = []
for n in sorted(os.listdir(os.path.join(ROOT, "neutral"))):
    d = os.path.join(ROOT, "neutral", n)
    if not os.path.isdir(d) or (args and n not in args):
        continue
    meta_p = os.path.join(d, "meta.json")
    meta = json.load(open(meta_p))
    if not table_only:
        files = re.findall(r"^\+\+\+ b/(\S+)", open(os.path.join(d, "patch.diff")).read(), re.M)
        ids = set([n.split("-")[0]])
        for f in files:
            ids |= set(M.get(f, "").split())
        ids = ALL if every else sorted(ids)
        t0 = time.time()
        r = subprocess.run([os.path.join(ROOT, "tools", "neutraleval.sh"), d] + ids, capture_output=True, text=True)
        out = r.stdout + r.stderr
        ver = {"suite_passes_with_change": "suite with change: PASS" in out, "checks": {}, "files": files,
               "ran": "tools/neutraleval.sh (git apply to the repository, ./check <ID> quick, git checkout)"}
        for m in re.finditer(r"== \S+ check (C\d+): rc=(\d+)", out):
            ver["checks"][m.group(1)] = {"0": "silent", "1": "ALARM"}.get(m.group(2), "inconclusive")
        al = re.search(r"(VIOLATION property=\S+ replay=\S+\n(?:  .*\n){1,3})", out)
        if al:
            ver["first_alarm"] = al.group(1).strip()[:500]
        meta["verification"] = ver
        json.dump(meta, open(meta_p, "w"), indent=1)
        print(n, {k: v for k, v in ver["checks"].items() if v != "silent"} or "all %d silent" % len(ver["checks"]), "%.0fs" % (time.time() - t0), flush=True)
    rows.append((n, meta.get("summary", "")[:170].replace("\n", " ").replace("|", "/"), meta.get("observable", "")[:120].replace("\n", " ").replace("|", "/"), meta.get("verification", {})))
if not args or table_only:
    with open(os.path.join(ROOT, "neutral", "RESULTS.md"), "w") as f:
        f.write("# Neutral changes and what the checks say about them\n\nEach directory holds patch.diff and meta.json (what was changed, what is observable, "
                "why every property still holds, and the verification record). A check that raises a VIOLATION on one of them is over-specified (or the change is not neutral after all).\n\n")
        f.write("| change | what was changed | observable | suite | checks run (quick tier, VERIF_SEED=1) |\n|---|---|---|---|---|\n")
        for n, summ, obs, ver in rows:
            ch = ver.get("checks", {})
            bad = ["%s: %s" % kv for kv in ch.items() if kv[1] != "silent"]
            f.write("| %s | %s | %s | %s | %s |\n" % (n, summ, obs, "passes" if ver.get("suite_passes_with_change") else "?", ("%d checks, all silent" % len(ch)) if not bad else "; ".join(bad)))
