package props

import (
	"bytes"
	"fmt"
	"regexp"
	"strconv"
	"strings"
	"testing"
	"time"

	"pgregory.net/rapid"

	"github.com/wkhere/bcl"

	"verif/bc"
	"verif/gen"
	"verif/harness"
	"verif/ref"
)

// C19 — introspection options only observe.

type caseC19 struct {
	Src    string     `json:"src"`
	Script []readStep `json:"script"`
	Class  string     `json:"class"`
}

type runC19 struct {
	a           actual
	perr        error // parse/load error, if the entry point separates it
	pan         any
	xout        string // what the Execute call's own writer received (own-writer entry)
	firstRunOut string // parse-time writer after the first run (own-writer entry)
	secondRun   string // outcome of a plain second run of the same program (own-writer entry)
}

var (
	listRe  = regexp.MustCompile(`^(\d{4,}) (?:     \|| *\d+:\d+)  (\S+)`)
	stackRe = regexp.MustCompile(`^ {13}\d+: `)
	statRe  = regexp.MustCompile(`^([px]stats)\.(\w+): *(\d+)$`)
	headRe  = regexp.MustCompile(`^== .* ==$`)
)

// runEntry runs one entry point with the given options. Output and log go
// to fresh buffers.
func runEntry(entry string, c caseC19, dis, tr, st bool, dump []byte) (r runC19) {
	var out, log lockedBuf
	defer func() {
		if p := recover(); p != nil {
			r.pan = p
		}
		r.a.Out, r.a.Log = out.String(), log.String()
	}()
	w := []bcl.Option{bcl.OptOutput(&out), bcl.OptLogger(&log)}
	all := append(append([]bcl.Option{}, w...), bcl.OptDisasm(dis), bcl.OptTrace(tr), bcl.OptStats(st))
	switch entry {
	case "Interpret":
		r.a.Blocks, r.a.Binding, r.a.Err = bcl.Interpret([]byte(c.Src), all...)
	case "Parse+Execute":
		p, err := bcl.Parse([]byte(c.Src), "n", all...)
		if err != nil {
			r.perr, r.a.Err = err, err
			return
		}
		r.a.Blocks, r.a.Binding, r.a.Err = bcl.Execute(p, all...)
	case "Parse+Execute(own writer)":
		// the program's lines go to the writer it was parsed with, whatever
		// writer and options the Execute call gets
		p, err := bcl.Parse([]byte(c.Src), "n", all...)
		if err != nil {
			r.perr, r.a.Err = err, err
			return
		}
		var xout lockedBuf
		xo := []bcl.Option{bcl.OptOutput(&xout), bcl.OptLogger(&log), bcl.OptTrace(tr), bcl.OptStats(st)}
		r.a.Blocks, r.a.Binding, r.a.Err = bcl.Execute(p, xo...)
		// a later plain run of the same program prints to its own writer again
		mark := out.String()
		res2, b2, err2 := bcl.Execute(p)
		second := strings.TrimPrefix(out.String(), mark)
		r.secondRun = fmt.Sprintf("%q %v %v %v", second, errStr(err2), fmt.Sprintf("%#v", res2), fmt.Sprintf("%#v", b2))
		r.xout = xout.String()
		r.firstRunOut = mark
	case "ParseFile+Execute":
		done := make(chan struct{})
		var p *bcl.Prog
		var err error
		go func() {
			defer close(done)
			defer func() {
				if x := recover(); x != nil {
					r.pan = x
				}
			}()
			p, err = bcl.ParseFile(&scriptFile{data: []byte(c.Src), script: c.Script, name: "n"}, all...)
		}()
		select {
		case <-done:
		case <-time.After(20 * time.Second):
			r.pan = "ParseFile did not return"
			return
		}
		if r.pan != nil {
			return
		}
		if err != nil {
			r.perr, r.a.Err = err, err
			return
		}
		r.a.Blocks, r.a.Binding, r.a.Err = bcl.Execute(p, all...)
	case "LoadProg+Execute":
		p, err := bcl.LoadProg(bytes.NewReader(dump), "n", all...)
		if err != nil {
			r.perr, r.a.Err = err, err
			return
		}
		r.a.Blocks, r.a.Binding, r.a.Err = bcl.Execute(p, all...)
	}
	return
}

type parsedOut struct {
	program []string // lines that are neither listing, trace nor stats
	listed  []listed // all instruction lines in order of appearance
	static  []listed // the disassembly (see divide)
	trace   []listed
	stats   map[string]int
	headers int
}
type listed struct {
	off int
	mn  string
}

func splitOutput(out string) parsedOut {
	po := parsedOut{stats: map[string]int{}}
	for _, ln := range strings.SplitAfter(out, "\n") {
		if ln == "" {
			continue
		}
		l := strings.TrimSuffix(ln, "\n")
		switch {
		case headRe.MatchString(l):
			po.headers++
		case stackRe.MatchString(l):
			// the operand stack shown before a traced instruction: extra text
		case listRe.MatchString(l):
			m := listRe.FindStringSubmatch(l)
			off, _ := strconv.Atoi(m[1])
			po.listed = append(po.listed, listed{off, m[2]})
		case statRe.MatchString(l):
			m := statRe.FindStringSubmatch(l)
			v, _ := strconv.Atoi(m[3])
			po.stats[m[1]+"."+m[2]] = v
		default:
			po.program = append(po.program, ln)
		}
	}
	return po
}

// divide separates the instruction lines into the listing (printed as a
// whole before anything runs: the first n lines when disassembly is on) and
// the trace.
func (po *parsedOut) divide(dis bool, n int) {
	if dis {
		if n > len(po.listed) {
			n = len(po.listed)
		}
		po.static, po.trace = po.listed[:n], po.listed[n:]
		return
	}
	po.static, po.trace = nil, po.listed
}

// lenientC19 is set when the harness does not recognise the format of the
// introspection text any more (see calibrateC19): lines it cannot classify
// are then extra text, which the property allows while an option is on, and
// the program's own lines are looked for among them in order.
var lenientC19 bool

// ownLines tells whether the program's lines (the output of the run
// without options) are what is left of out when the extra text is taken
// away: exactly, or in lenient mode as a subsequence of whole lines.
func ownLines(unclassified []string, want string) bool {
	if !lenientC19 {
		return strings.Join(unclassified, "") == want
	}
	wl := strings.SplitAfter(want, "\n")
	k := 0
	for _, ln := range unclassified {
		for k < len(wl) && wl[k] == "" {
			k++
		}
		if k < len(wl) && ln == wl[k] {
			k++
		}
	}
	for k < len(wl) && wl[k] == "" {
		k++
	}
	return k == len(wl)
}

func checkC19(c caseC19) (viol string, nontrivial bool, feats []string) {
	whole := parseWhole(c.Src, "n")
	if whole.pan != nil {
		return fmt.Sprintf("Parse panicked: %v", whole.pan), false, nil
	}
	var f *bc.File
	var ins []bc.Instr
	byOff := map[int]bc.Instr{}
	entries := []string{"Interpret", "Parse+Execute", "ParseFile+Execute", "Parse+Execute(own writer)"}
	if whole.err == nil {
		var err error
		f, err = bc.Decode(whole.dump)
		if err != nil {
			return fmt.Sprintf("independent decoder rejects the dump: %v", err), false, nil
		}
		ins, _ = bc.Instrs(f.Code)
		for _, in := range ins {
			byOff[in.Off] = in
		}
		entries = append(entries, "LoadProg+Execute")
	}
	jumps := 0
	blocks := 0
	for _, in := range ins {
		switch in.Op {
		case bc.JUMP, bc.JFALSE:
			jumps++
		case bc.DEFBLOCK:
			blocks++
		}
	}
	if c.Class == "huge-counters" {
		// hundreds of kilobytes of trace per run: two entry points suffice
		entries = []string{"Interpret"}
		if whole.err == nil {
			entries = append(entries, "LoadProg+Execute")
		}
	}
	for _, entry := range entries {
		base := runEntry(entry, c, false, false, false, whole.dump)
		if base.pan != nil {
			return fmt.Sprintf("%s without options panicked: %v", entry, base.pan), false, feats
		}
		for combo := 1; combo < 8; combo++ {
			dis, tr, st := combo&1 != 0, combo&2 != 0, combo&4 != 0
			name := fmt.Sprintf("%s disasm=%v trace=%v stats=%v", entry, dis, tr, st)
			r := runEntry(entry, c, dis, tr, st, whole.dump)
			if r.pan != nil {
				return fmt.Sprintf("%s panicked: %v", name, r.pan), false, feats
			}
			switch {
			case errStr(r.a.Err) != errStr(base.a.Err):
				return fmt.Sprintf("%s: error %q, without options %q", name, errStr(r.a.Err), errStr(base.a.Err)), false, feats
			case r.a.Log != base.a.Log:
				return fmt.Sprintf("%s: log %q, without options %q", name, clip(r.a.Log, 300), clip(base.a.Log, 300)), false, feats
			case !eqBlocks(r.a.Blocks, base.a.Blocks):
				return fmt.Sprintf("%s: blocks differ from the run without options", name), false, feats
			case !eqBinding(r.a.Binding, base.a.Binding):
				return fmt.Sprintf("%s: binding differs from the run without options", name), false, feats
			}
			if entry == "Parse+Execute(own writer)" {
				if whole.err != nil {
					continue
				}
				// the parse-time writer holds listing, parse statistics and the
				// program's own lines; the Execute call's writer trace and
				// execution statistics only
				if r.secondRun != base.secondRun {
					return fmt.Sprintf("%s: a later plain run of the same program gives %s; after a run without options it gives %s", name, clip(r.secondRun, 300), clip(base.secondRun, 300)), false, feats
				}
				if px := splitOutput(r.xout); !lenientC19 && len(px.program) > 0 {
					return fmt.Sprintf("%s: the Execute call's writer received lines of the program: %q", name, clip(r.xout, 300)), false, feats
				}
				if got, want := splitOutput(r.firstRunOut).program, base.firstRunOut; !ownLines(got, want) {
					return fmt.Sprintf("%s: the program's lines at the writer it was parsed with are %q; without options %q", name, clip(strings.Join(got, ""), 300), clip(want, 300)), false, feats
				}
				continue
			}
			po := splitOutput(r.a.Out)
			po.divide(dis, len(ins))
			if !ownLines(po.program, base.a.Out) {
				return fmt.Sprintf("%s: the program's own output, with listing/trace/stats lines removed, is %q; without options it is %q", name, clip(strings.Join(po.program, ""), 400), clip(base.a.Out, 400)), false, feats
			}
			accepted := whole.err == nil
			if !accepted {
				if len(po.static) > 0 || len(po.trace) > 0 || po.headers > 0 {
					return fmt.Sprintf("%s: a rejected program was listed or traced", name), false, feats
				}
				if _, has := po.stats["pstats.tokens"]; has != st {
					return fmt.Sprintf("%s: parse statistics present=%v with stats=%v on a rejected program", name, has, st), false, feats
				}
				continue
			}
			// disassembly: each instruction exactly once at its offset
			if dis {
				if len(po.static) != len(ins) {
					return fmt.Sprintf("%s: disassembly lists %d instructions, the compiled program has %d", name, len(po.static), len(ins)), false, feats
				}
				for i, l := range po.static {
					if l.off != ins[i].Off || l.mn != bc.Mnemonic[ins[i].Op] {
						return fmt.Sprintf("%s: disassembly line %d is %04d %s, instruction %d of the program is %04d %s", name, i, l.off, l.mn, i, ins[i].Off, bc.Mnemonic[ins[i].Op]), false, feats
					}
				}
				if po.headers != 1 {
					return fmt.Sprintf("%s: %d listing headers", name, po.headers), false, feats
				}
			} else if po.headers > 0 || (!tr && len(po.listed) > 0) {
				return fmt.Sprintf("%s: listing lines without OptDisasm", name), false, feats
			}
			if tr {
				if len(po.trace) == 0 || po.trace[0].off != 0 {
					return fmt.Sprintf("%s: trace does not start at offset 0", name), false, feats
				}
				for i, l := range po.trace {
					in, ok := byOff[l.off]
					if !ok || bc.Mnemonic[in.Op] != l.mn {
						return fmt.Sprintf("%s: trace entry %d (%04d %s) is not an instruction of the program", name, i, l.off, l.mn), false, feats
					}
					if i+1 < len(po.trace) {
						nx := po.trace[i+1].off
						fall := in.Off + in.Len
						ok := nx == fall
						switch in.Op {
						case bc.JUMP:
							ok = nx == in.Target()
						case bc.JFALSE:
							ok = nx == fall || nx == in.Target()
						case bc.RET:
							ok = false
						}
						if !ok {
							return fmt.Sprintf("%s: trace goes from %04d %s to %04d, which is not a successor", name, in.Off, l.mn, nx), false, feats
						}
					}
				}
				lastOp := byOff[po.trace[len(po.trace)-1].off].Op
				if base.a.Err == nil && lastOp != bc.RET {
					return fmt.Sprintf("%s: a successful run's trace ends in %s, not RET", name, bc.Mnemonic[lastOp]), false, feats
				}
				if base.a.Err != nil && lastOp == bc.RET {
					return fmt.Sprintf("%s: a failing run's trace ends in RET", name), false, feats
				}
			} else if len(po.trace) > 0 {
				return fmt.Sprintf("%s: trace lines without OptTrace", name), false, feats
			}
			if st {
				if _, has := po.stats["xstats.opsRead"]; !has {
					return fmt.Sprintf("%s: no execution statistics", name), false, feats
				}
				if tr && po.stats["xstats.opsRead"] != len(po.trace) {
					return fmt.Sprintf("%s: %d instructions traced, statistics report opsRead=%d", name, len(po.trace), po.stats["xstats.opsRead"]), false, feats
				}
			} else if len(po.stats) > 0 {
				return fmt.Sprintf("%s: statistics lines without OptStats", name), false, feats
			}
		}
		// trace length with stats off equals opsRead with stats on (same run)
	}
	feats = append(feats, "class:"+c.Class)
	if whole.err != nil {
		feats = append(feats, "program:rejected")
	} else {
		feats = append(feats, fmt.Sprintf("jumps:%s", bucket(jumps)))
	}
	nontrivial = jumps >= 1 || blocks >= 1 || whole.err != nil || c.Class == "runtime-failure" || c.Class == "stack-overflow"
	return "", nontrivial, feats
}

// calibrateC19 makes sure the harness can still read the introspection text
// at all. The property allows any extra text on the output writer while an
// option is on; the harness can only separate it from the program's own
// lines while it recognises its format (listing lines, stack and instruction
// lines of the trace, statistics lines). If a small known program produces
// lines it cannot classify, the format has changed and the check is
// read leniently (see lenientC19), never a violation by itself.
func calibrateC19() {
	src := "var a = 1\nvar s = \"p q\"\ndef b \"n\" { x = a + 1.5; y = s + nil; z = not a }\ndef b { w = \"\" }\nbind b:first -> struct\nprint a and 2\nprint s or a\n"
	r := runEntry("Interpret", caseC19{Src: src}, true, true, true, nil)
	if r.pan != nil || r.a.Err != nil {
		return // the checks proper will report it
	}
	po := splitOutput(r.a.Out)
	if got := strings.Join(po.program, ""); got != "2\np q\n" {
		lenientC19 = true
		harness.Get("C19").SetExtra("reader_mode", "lenient: the introspection text of a known program contains lines the harness cannot classify ("+clip(got, 200)+"); unclassified lines are treated as extra text")
	}
}

func TestC19(t *testing.T) {
	rec := harness.Get("C19")
	calibrateC19()
	if path := replayPath(); path != "" {
		var c caseC19
		must(harness.LoadReplay(path, &c))
		if viol, _, _ := checkC19(c); viol != "" {
			rec.Fail(t, c, "%s\nsource: %q", viol, c.Src)
		}
		return
	}
	rapid.Check(t, func(t *rapid.T) {
		cfg := acceptedCfg(t)
		cfg.PlainStr = true
		cfg.PIllegal = 8
		cfg.PDivZero = 15
		cfg.PShort = 30
		cfg.BNames = []string{"", `"a"`, `"b c"`, `"é"`}
		p, _ := gen.GenProg(t, cfg)
		if gen.Chance(t, 3, "special") {
			// slot numbers, pop counts and constant indices with multi-byte operands
			p, _ = gen.SpecialProg(t)
		}
		o := ref.Run(p)
		if o.Unspecified != "" && o.Unspecified != "comparison with NaN" {
			rec.Case(false, harness.Hash("skip"), "skipped:"+o.Unspecified)
			return
		}
		toks := gen.RenderProg(p).Toks
		class := "ok"
		switch {
		case o.Compile != nil:
			class = "compile-error"
		case o.RT != nil:
			class = "runtime-failure"
		case len(o.Warnings) > 0:
			class = "warning"
		}
		if len(toks) > 0 && gen.Chance(t, 10, "mutate") {
			toks = gen.GenMutation(t, toks, 10).Apply(toks)
			class = "mutant"
			if hasStar(toks) {
				// a mutant has no tree for R1 to vouch that it stays within the
				// memory bound; avoid repetition altogether
				rec.Case(false, harness.Hash("skip"), "skipped:mutant-with-repetition")
				return
			}
		}
		for _, tk := range toks {
			if v, ok := gen.Unquote(tk.S); tk.K == gen.KStr && ok && strings.Contains(v, "\n") {
				// a constant with a line break would split a listing line in two:
				// outside of what this harness can parse back
				rec.Case(false, harness.Hash("skip"), "skipped:string-with-newline")
				return
			}
		}
		lay := gen.GenLayout(t, toks, gen.LayoutOpts{Plain: 90, NoInvalid: true})
		src, _ := renderChecked(toks, lay)
		if gen.Chance(t, 1, "overflow") {
			// a run that ends in the operand stack limit (not modelled by R1,
			// which is not consulted for this family)
			class = "stack-overflow"
			var sb strings.Builder
			if gen.Bool(t, "bynesting") {
				n := gen.Int(t, 1024, 1030, "levels")
				sb.WriteString("print 5\nprint " + strings.Repeat("1+(", n) + "1" + strings.Repeat(")", n) + "\n")
			} else {
				for i := 0; i < 1024; i++ {
					fmt.Fprintf(&sb, "var v%d = %d\n", i, i)
				}
				sb.WriteString("print 5\nprint v3 + v4\n")
			}
			src = sb.String()
		}
		if gen.Uniform(t, 300, "hugecounters") == 0 {
			// statistics with six-digit counters: more than 100 000 tokens
			class = "huge-counters"
			n := gen.Pick(t, "hugeN", []int{33400, 50000})
			src = strings.Repeat(gen.Pick(t, "hugeunit", []string{"eval 0;", "eval 0\n", "print 0 ", "eval 1+2 "}), n)
			if gen.Bool(t, "hugefails") {
				src += "\nprint 1/0\n"
			}
		}
		c := caseC19{Src: src, Class: class}
		_, c.Script = drawScript(t, len(src))
		viol, nt, feats := checkC19(c)
		rec.Case(nt, harness.Hash(src), feats...)
		if nt {
			rec.Sample(func() any { return map[string]any{"class": c.Class, "src": clip(c.Src, 300)} })
		}
		if viol != "" {
			rec.Fail(t, c, "%s\nsource: %q", viol, c.Src)
		}
	})
}

func TestReplayC19(t *testing.T) { replayOnly(t); TestC19(t) }
