package props

import (
	"testing"

	"pgregory.net/rapid"

	"verif/gen"
	"verif/ref"
)

// C03 — result blocks mirror the definitions in the source.

func genC03(t *rapid.T) caseProg {
	cfg := gen.DefaultCfg()
	cfg.MaxTop = 7
	cfg.MaxBody = 6
	cfg.MaxDepth = gen.Pick(t, "maxdepth", []int{1, 2, 3, 4})
	cfg.ExprDepth = 2
	cfg.PWild = 3
	cfg.PDivZero = 15
	cfg.PDupChild = 25
	cfg.PEmbedAsg = 5
	// field names and block types overlap, and TYPE/NAME are ordinary names too,
	// so that keys of children collide with fields and the builtins meet fields
	// of the same spelling
	cfg.Names = []string{"a", "b", "c", "d", "TYPE", "NAME"}
	cfg.Types = []string{"s", "t", "a", "b"}
	cfg.WVar, cfg.WAsg, cfg.WPrint, cfg.WDef = 12, 35, 8, 45
	cfg.BNames = []string{"", "", `"a"`, `"b"`, `"a b"`, `"\x41"`, `"q\"r"`, `"é"`, `"x.y"`, `""`, `"é"`, `"t\tb"`, `"a."`, `"."`, `"x.y."`, `"b.."`, `" "`, `"\t"`, `"\u00a0"`, `"  "`, `"NAME"`, `"TYPE"`}
	cfg.Binds = gen.Chance(t, 30, "withbinds")
	return genCaseProg(t, cfg, gen.LayoutOpts{Plain: 95})
}

func nontrivialC03(c caseProg, o *ref.Outcome, sh *progShape) bool {
	if o.Compile != nil {
		return false
	}
	return sh.nested > 0 || sh.reassigned || sh.repeatedKey || (o.RT != nil && len(o.Blocks) > 0)
}

func TestC03(t *testing.T)       { runProgProperty(t, "C03", genC03, nontrivialC03, nil) }
func TestReplayC03(t *testing.T) { replayOnly(t); TestC03(t) }
