package props

import (
	"fmt"
	"math"
	"strings"
	"testing"
	"time"

	"pgregory.net/rapid"

	"verif/gen"
	"verif/harness"
	"verif/ref"
)

// C06 — every input ends in a result or an error, never a crash or a hang.

type caseC06 struct {
	Family string  `json:"family"`
	Req    workReq `json:"req"`
	Note   string  `json:"note,omitempty"`
}

var theWorker *worker

func askWorker(req workReq) workOutcome {
	if theWorker == nil {
		theWorker = startWorker()
	}
	o := theWorker.ask(req, 20*time.Second)
	if o.died || o.hung {
		theWorker = nil
	}
	if o.hung {
		// once more, alone and with a long budget: only a second timeout counts
		w := startWorker()
		o2 := w.ask(req, 90*time.Second)
		if !o2.hung && !o2.died {
			w.kill()
			return o2
		}
		if !o2.hung {
			return o2
		}
		return o2
	}
	return o
}

func checkC06(c caseC06) string {
	o := askWorker(c.Req)
	switch {
	case o.hung:
		return "the call did not return within 90 s (worker killed)"
	case o.died:
		if strings.Contains(o.stderr, "out of memory") || strings.Contains(o.stderr, "cannot allocate memory") {
			if strings.Contains(string(c.Req.Src), "*") && !c.Req.Exec {
				return "" // repetition outside the property's memory bound (not executed by design, but a rejected program is never run at all)
			}
			return "the worker process ran out of memory (6 GiB address space) on an input whose legitimate result is small:\n" + firstLines(o.stderr, 12)
		}
		return "the process died (a panic in one of the library's goroutines is unrecoverable):\n" + firstLines(o.stderr, 14)
	case o.res.Panic != "":
		return "panic in the caller's goroutine: " + o.res.Panic
	}
	return ""
}

// safeToExecute tells whether executing the input stays within the
// property's memory bound: without '*' nothing can grow; with it, the
// harness's own tokenizer, recogniser and evaluator must vouch for it.
func safeToExecute(src []byte) bool {
	if !strings.Contains(string(src), "*") {
		return true
	}
	tp, lerr := gen.Tokenize(string(src))
	if lerr != nil {
		return true // a lexical failure: nothing is executed
	}
	toks := make([]gen.Tok, len(tp))
	for i, x := range tp {
		toks[i] = x.Tok
	}
	p, v := ref.ParseTokens(toks)
	if !v.Accept {
		return v.Unspecified == "" // rejected: nothing is executed
	}
	o := ref.Run(p)
	return !strings.Contains(o.Unspecified, "repetition")
}

var soupAlphabet = []string{" ", "\n", "\t", "a", "b", "x1", "_", "0", "1", "9", "0x", "1e", ".", "e", "E", "+", "-", "*", "/", "=", "==", "!", "!=", "<", ">", "<=", ">=",
	"(", ")", "{", "}", ":", ";", "->", "\"", "\\", "\\\"", "#", "'", "@", "$", "é", "\xff", "\xc3", "\u0085", "\u00a0", "var", "def", "eval", "print", "bind", "true", "false", "nil", "not", "and", "or",
	"struct", "slice", "first", "all", "\x00", "\r", "08", "9223372036854775808", "1e999", "\"\\q\"", "\"\\400\""}

func genBytes(t *rapid.T) []byte {
	var sb strings.Builder
	n := gen.Int(t, 0, 60, "npieces")
	for i := 0; i < n; i++ {
		if gen.Chance(t, 15, "rawbyte") {
			sb.WriteByte(rapid.Byte().Draw(t, "byte"))
		} else {
			sb.WriteString(gen.Pick(t, "piece", soupAlphabet))
		}
	}
	return []byte(sb.String())
}

func genSoup(t *rapid.T) []byte {
	n := gen.Int(t, 0, 60, "ntoks")
	toks := make([]gen.Tok, n)
	for i := range toks {
		if gen.Chance(t, 12, "hostile") {
			toks[i] = gen.Pick(t, "hostiletok", gen.HostileLiterals)
		} else {
			toks[i] = gen.Pick(t, "vocab", gen.Vocabulary)
		}
	}
	src, _ := gen.Render(toks, gen.GenLayout(t, toks, gen.LayoutOpts{Plain: 70}))
	return []byte(src)
}

// blockOps: a nested block read back through its key meets every operator.
func blockOpsProg(t *rapid.T) *gen.Prog {
	id := func(n string) *gen.Expr { return &gen.Expr{K: "id", T: n} }
	ops := []*gen.Expr{}
	for _, op := range []string{"+", "-", "*", "/", "==", "!=", "<", ">", "<=", ">="} {
		ops = append(ops, &gen.Expr{K: "bin", T: op, A: id("x"), B: id("x")},
			&gen.Expr{K: "bin", T: op, A: id("x"), B: &gen.Expr{K: "int", T: "1"}},
			&gen.Expr{K: "bin", T: op, A: &gen.Expr{K: "str", T: `"s"`}, B: id("x")})
	}
	ops = append(ops, &gen.Expr{K: "neg", A: id("x")}, &gen.Expr{K: "not", A: id("x")}, &gen.Expr{K: "and", A: id("x"), B: id("x")},
		&gen.Expr{K: "or", A: id("x"), B: id("x")}, &gen.Expr{K: "asg", T: "y", A: id("x")})
	e := gen.Pick(t, "blockop", ops)
	return &gen.Prog{Stmts: []*gen.Stmt{{K: "def", Name: "a", Body: []*gen.Stmt{
		{K: "def", Name: "x", Body: []*gen.Stmt{{K: "expr", E: &gen.Expr{K: "asg", T: "k", A: &gen.Expr{K: "int", T: "1"}}}}},
		{K: "print", E: e}, {K: "print", E: id("x")},
	}}}}
}

// bindShapes: small programs that reach the binding code of Unmarshal with
// unusual keys, block types and values.
func bindShapeSource(t *rapid.T) string {
	keys := []string{"_", "__", "a", "A", "a_", "_a", "name", "NAME", "Name", "TYPE", "b", "B_", "x__y", "_1", "a1"}
	types := []string{"small_target", "smalltarget", "_", "t", "SmallTarget", "small__target", "x"}
	vals := []string{"1", "\"s\"", "2.5", "true", "nil", "v", "-1", "\"\""}
	var sb strings.Builder
	sb.WriteString("var v\n")
	ty := gen.Pick(t, "shapetype", types)
	for i, n := 0, gen.Int(t, 1, 3, "nblocks"); i < n; i++ {
		fmt.Fprintf(&sb, "def %s %s{\n", ty, gen.Pick(t, "shapename", []string{"", "\"n\" ", "\"\" "}))
		for j, m := 0, gen.Int(t, 0, 4, "nkeys"); j < m; j++ {
			fmt.Fprintf(&sb, "  %s = %s\n", gen.Pick(t, "shapekey", keys), gen.Pick(t, "shapeval", vals))
		}
		if gen.Chance(t, 30, "shapenested") {
			fmt.Fprintf(&sb, "  def %s %s{ %s = 1 }\n", gen.Pick(t, "nestedtype", keys), gen.Pick(t, "nestedname", []string{"", "\"k\" "}), gen.Pick(t, "nestedkey", keys))
		}
		sb.WriteString("}\n")
	}
	fmt.Fprintf(&sb, "bind %s%s -> %s\n", ty, gen.Pick(t, "shapesel", []string{"", ":1", ":first", ":last", ":all"}), gen.Pick(t, "shapetgt", []string{"struct", "slice"}))
	return sb.String()
}

func genDamaged(t *rapid.T) (src []byte, exec bool, note string) {
	var p *gen.Prog
	if gen.Chance(t, 15, "bindshape") {
		return []byte(bindShapeSource(t)), true, "bind-shape"
	}
	if gen.Chance(t, 12, "blockops") {
		p = blockOpsProg(t)
		note = "block-value-operators"
	} else {
		cfg := acceptedCfg(t)
		cfg.PWild = 25
		p, _ = gen.GenProg(t, cfg)
	}
	o := ref.Run(p)
	toks := gen.RenderProg(p).Toks
	kind := gen.Weighted(t, "damage", 20, 45, 35)
	exec = o.Unspecified == "" || o.Unspecified == "comparison with NaN" || o.Unspecified == "bind inside a block"
	if kind >= 1 && len(toks) > 0 {
		toks = gen.GenMutation(t, toks, 15).Apply(toks)
		exec = exec && !hasStar(toks)
		note += " token-damage"
	}
	s, _ := gen.Render(toks, gen.GenLayout(t, toks, gen.LayoutOpts{Plain: 80}))
	b := []byte(s)
	if kind == 2 && len(b) > 0 {
		at := gen.Uniform(t, len(b), "byteat")
		switch gen.Uniform(t, 3, "bytedamage") {
		case 0:
			b[at] ^= byte(1 << gen.Uniform(t, 8, "bit"))
		case 1:
			b = append(b[:at], b[at+1:]...)
		default:
			b = append(b[:at], append([]byte{rapid.Byte().Draw(t, "ins")}, b[at:]...)...)
		}
		exec = exec && !strings.Contains(string(b), "*")
		note += " byte-damage"
	}
	return b, exec, strings.TrimSpace(note)
}

// limit families: n around each implementation limit
func genLimit(t *rapid.T) (src []byte, exec bool, note string) {
	near := func(l int) int {
		if gen.Chance(t, 80, "near") {
			return l + gen.Int(t, -2, 2, "delta")
		}
		return gen.Pick(t, "far", []int{l / 2, l + 50, 2 * l})
	}
	var sb strings.Builder
	exec = true
	switch fam := gen.Uniform(t, 14, "limitfamily"); fam {
	case 12: // the overflowing operand is a field, a builtin or a variable, inside a block
		n := near(1024)
		opnd := gen.Pick(t, "operand", []string{"f", "TYPE", "NAME", "v", "outer"})
		sb.WriteString("def o { outer = 2\ndef b \"n\" { f = 1\nvar v = 3\nx = ")
		sb.WriteString(strings.Repeat(opnd+"+(", n))
		sb.WriteString(opnd)
		sb.WriteString(strings.Repeat(")", n))
		sb.WriteString("\n}\n}\n")
		note = fmt.Sprintf("stack-depth-by-%s n=%d", opnd, n)
	case 13: // a full stack of variables in a block, then one more operand of each kind
		n := near(1024)
		sb.WriteString("def b { f = 1\n")
		for i := 0; i < n; i++ {
			fmt.Fprintf(&sb, "var v%d\n", i)
		}
		sb.WriteString(gen.Pick(t, "lastpush", []string{"eval f", "g = f + f", "eval TYPE", "print v0", "eval 1", "eval nil", "g = \"s\""}))
		sb.WriteString("\n}\n")
		note = fmt.Sprintf("variables-then-push n=%d", n)
	case 0: // operand stack depth by nesting
		n := near(1024)
		sb.WriteString("print ")
		sb.WriteString(strings.Repeat("1+(", n))
		sb.WriteString("1")
		sb.WriteString(strings.Repeat(")", n))
		note = fmt.Sprintf("stack-depth-nesting n=%d", n)
	case 1: // n variables at toplevel
		n := near(1024)
		for i := 0; i < n; i++ {
			fmt.Fprintf(&sb, "var v%d=%d\n", i, i)
		}
		sb.WriteString("print v0\n")
		note = fmt.Sprintf("variables-toplevel n=%d", n)
	case 2: // variables in a block plus expression depth
		n := near(1024)
		k := gen.Int(t, 0, 6, "exprdepth")
		sb.WriteString("def b {\n")
		for i := 0; i < n-k; i++ {
			fmt.Fprintf(&sb, "var v%d\n", i)
		}
		sb.WriteString("x = ")
		sb.WriteString(strings.Repeat("1+(", k))
		sb.WriteString("2")
		sb.WriteString(strings.Repeat(")", k))
		sb.WriteString("\n}\n")
		note = fmt.Sprintf("variables-in-block+depth n=%d k=%d", n, k)
	case 3: // block nesting
		n := gen.Int(t, 13, 22, "nest")
		sb.WriteString(strings.Repeat("def b { x = 1\n", n))
		sb.WriteString(strings.Repeat("}\n", n))
		note = fmt.Sprintf("block-nesting n=%d", n)
	case 4: // jump distance
		op := gen.Pick(t, "scop", []string{"and", "or"})
		n := 32767 + gen.Int(t, -40, 40, "delta")
		p := &gen.Prog{Stmts: []*gen.Stmt{{K: "print", E: gen.JumpLimitExpr(op, gen.Int(t, 0, 4, "prefix"), n)}}}
		r := gen.RenderProg(p)
		s, _ := gen.Render(r.Toks, gen.PlainLayout(r.Toks))
		sb.WriteString(s)
		note = fmt.Sprintf("jump-distance %s n=%d", op, n)
	case 5: // repeat counts
		cnt := gen.Pick(t, "count", []string{"-9223372036854775807-1", "-1", "-2", "0", "1", "3", "0-1", "(0-5)"})
		str := gen.Pick(t, "str", []string{`""`, `"a"`, `"ab"`, `"é"`})
		fmt.Fprintf(&sb, "var n = %s\nprint %s * n\nprint %s * %s\n", cnt, str, str, cnt)
		note = "repeat-count " + cnt
	case 6: // results up to 2^20 bytes
		l := gen.Pick(t, "len", []int{1, 2, 3, 7, 1000})
		cnt := (1 << 20) / l
		if gen.Bool(t, "justbelow") {
			cnt--
		}
		fmt.Fprintf(&sb, "print \"%s\" * %d == \"\"\n", strings.Repeat("s", l), cnt)
		note = fmt.Sprintf("repeat-to-2^20 len=%d count=%d", l, cnt)
	case 7: // long identifier / string / comment
		n := gen.Pick(t, "longn", []int{240, 241, 4095, 4096, 4097, 8192, 67823, 67824, 70000})
		switch gen.Uniform(t, 3, "longwhat") {
		case 0:
			fmt.Fprintf(&sb, "var %s = 1\nprint %s\n", strings.Repeat("i", n), strings.Repeat("i", n))
		case 1:
			fmt.Fprintf(&sb, "print \"%s\"\ndef t \"%s\" {}\n", strings.Repeat("s", n), strings.Repeat("n", n))
		default:
			fmt.Fprintf(&sb, "#%s\nprint 1 #%s", strings.Repeat("c", n), strings.Repeat("d", n))
		}
		note = fmt.Sprintf("long-lexeme n=%d", n)
	case 8: // parenthesis chain
		n := gen.Pick(t, "chain", []int{100, 1023, 1024, 1025, 5000, 10000})
		fmt.Fprintf(&sb, "print %s1%s\n", strings.Repeat("(", n), strings.Repeat(")", n))
		note = fmt.Sprintf("paren-chain n=%d", n)
	case 9: // not / unary chains
		n := gen.Pick(t, "chain", []int{100, 1024, 5000, 10000})
		w := gen.Pick(t, "unop", []string{"not ", "-", "+", "- -"})
		fmt.Fprintf(&sb, "print %s1\n", strings.Repeat(w, n))
		note = fmt.Sprintf("unary-chain %q n=%d", w, n)
	case 10: // unbalanced chains (rejected, deep recursion in the parser)
		n := gen.Pick(t, "chain", []int{1000, 10000})
		w := gen.Pick(t, "open", []string{"(", "def b {", "1+(", "not (", "a = ("})
		sb.WriteString("def z {" + strings.Repeat(w, n))
		note = fmt.Sprintf("unbalanced-chain %q n=%d", w, n)
	default: // int extremes in arithmetic
		e := gen.Pick(t, "intedge", []string{"9223372036854775807 + 1", "-9223372036854775807 - 2", "(-9223372036854775807-1) / -1", "(-9223372036854775807-1) * -1",
			"-(-9223372036854775807-1)", "1 / 0", "1.0 / 0", "0.0 / 0.0", "1 / 0.0", "\"a\" + 1e300*1e300", "9223372036854775807 * 9223372036854775807"})
		fmt.Fprintf(&sb, "print %s\n", e)
		note = "int-extremes " + e
	}
	return []byte(sb.String()), exec, note
}

func TestC06(t *testing.T) {
	rec := harness.Get("C06")
	if path := replayPath(); path != "" {
		var c caseC06
		if data, ok := fuzzCrasherInput(path); ok {
			// a crasher saved by the native fuzz engine
			c = caseC06{Family: "native-fuzz", Req: workReq{Src: data, Exec: !strings.Contains(string(data), "*"), Chunks: []int{7, 0, 1}}}
		} else {
			must(harness.LoadReplay(path, &c))
		}
		if viol := checkC06(c); viol != "" {
			rec.Fail(t, c, "%s", viol)
		}
		return
	}
	defer func() {
		if theWorker != nil {
			theWorker.kill()
			theWorker = nil
		}
	}()
	rapid.Check(t, func(t *rapid.T) {
		var c caseC06
		switch gen.Weighted(t, "family", 25, 25, 35, 15) {
		case 0:
			c.Family = "bytes"
			c.Req.Src = genBytes(t)
			c.Req.Exec = safeToExecute(c.Req.Src)
		case 1:
			c.Family = "token-soup"
			c.Req.Src = genSoup(t)
			c.Req.Exec = safeToExecute(c.Req.Src)
		case 2:
			c.Family = "damaged-program"
			c.Req.Src, c.Req.Exec, c.Note = genDamaged(t)
		default:
			c.Family = "limit"
			c.Req.Src, c.Req.Exec, c.Note = genLimit(t)
		}
		for i, n := 0, gen.Int(t, 0, 6, "nchunks"); i < n; i++ {
			c.Req.Chunks = append(c.Req.Chunks, gen.Pick(t, "chunk", []int{0, 1, 2, 3, 7, 64, 4096}))
		}
		c.Req.EOFData = gen.Chance(t, 30, "eofdata")
		if gen.Chance(t, 10, "failat") {
			c.Req.FailAt = gen.Int(t, 1, 4, "failatk")
		}
		viol := checkC06(c)
		toks, _ := gen.Tokenize(string(c.Req.Src))
		nt := len(toks) >= 3 || c.Family == "limit"
		feats := []string{"family:" + c.Family}
		if c.Family == "limit" {
			feats = append(feats, "limit:"+strings.Fields(c.Note)[0])
		}
		if !c.Req.Exec {
			feats = append(feats, "not-executed(repetition possible)")
		}
		rec.Case(nt, harness.Hash(c.Req.Src, fmt.Sprint(c.Req.Chunks, c.Req.EOFData, c.Req.FailAt)), feats...)
		if nt {
			rec.Sample(func() any {
				return map[string]any{"family": c.Family, "note": c.Note, "src": clip(string(c.Req.Src), 200), "chunks": c.Req.Chunks}
			})
		}
		if viol != "" {
			rec.Fail(t, c, "%s\nfamily %s %s\nsource: %q", viol, c.Family, c.Note, clip(string(c.Req.Src), 600))
		}
	})
}

func TestReplayC06(t *testing.T) { replayOnly(t); TestC06(t) }

var _ = math.MaxInt64

// TestC06Sweeps sends the operand-value sub-space through the worker: the
// programs of gen.OperandSweepProg for every operand value 0..80 (the values
// of all opcodes and some more) and 236..260 (the operand size boundary) and
// every statement shape. Accepted programs whose operand bytes coincide with
// opcodes must run like any other.
func TestC06Sweeps(t *testing.T) {
	if !firstShard() || replayPath() != "" {
		t.Skip("runs in the first shard only")
	}
	rec := harness.Get("C06")
	rec.SetScope("sweeps")
	defer func() {
		if theWorker != nil {
			theWorker.kill()
			theWorker = nil
		}
	}()
	n := 0
	var ks []int
	for k := 0; k <= 80; k++ {
		ks = append(ks, k)
	}
	for k := 236; k <= 260; k++ {
		ks = append(ks, k)
	}
	for _, k := range ks {
		for kind := 0; kind < gen.OperandSweepKinds; kind++ {
			for _, bare := range []bool{false, true} {
				p := gen.OperandSweepProg(k, kind)
				if bare {
					// nothing after the block (no later constants)
					p.Stmts = p.Stmts[:len(p.Stmts)-2]
				}
				r := gen.RenderProg(p)
				src, _ := gen.Render(r.Toks, gen.PlainLayout(r.Toks))
				c := caseC06{Family: "operand-sweep", Note: fmt.Sprintf("operand value %d, shape %d, bare=%v", k, kind, bare), Req: workReq{Src: []byte(src), Exec: true, Chunks: []int{7}}}
				n++
				if viol := checkC06(c); viol != "" {
					rec.Fail(t, c, "%s\n%s\nsource: %s", viol, c.Note, clip(src, 500))
				}
			}
		}
	}
	rec.Count("sweep:operand-value-programs", n)
	rec.SetExtra("exhaustive_subspace", "operand values 0..80 and 236..260 x 10 statement shapes x {with, without} statements after the block (gen.OperandSweepProg)")
}
