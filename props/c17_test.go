package props

import (
	"fmt"
	"regexp"
	"strings"
	"testing"

	"pgregory.net/rapid"

	"verif/gen"
	"verif/harness"
	"verif/ref"
)

// C17 — the parser accepts exactly the grammar and reports what it rejects.

type caseC17 struct {
	Toks   []gen.Tok     `json:"toks"`
	Layout gen.Layout    `json:"layout"`
	Src    string        `json:"src"`
	Mut    *gen.Mutation `json:"mutation,omitempty"`
}

var diagLineRe = regexp.MustCompile(`(?m)^line \d+:\d+: error`)

func hasStar(toks []gen.Tok) bool {
	for _, t := range toks {
		if t.K == gen.KPunct && t.S == "*" {
			return true
		}
	}
	return false
}

func checkC17(c caseC17) (viol string, v ref.Verdict) {
	v = ref.Recognize(c.Toks)
	if v.Unspecified == "bind inside a block" {
		// the property's grammar lists bind among the statements and allows
		// inside blocks whatever is allowed at toplevel ("additionally bare
		// expressions"): a complete bind statement in a block is a sentence
		v.Unspecified = ""
	}
	if v.Unspecified != "" {
		return "", v
	}
	pr := parseWhole(c.Src, "n")
	if pr.pan != nil {
		return fmt.Sprintf("Parse panicked: %v", pr.pan), v
	}
	if v.Accept {
		if pr.err != nil {
			return fmt.Sprintf("derivable from the grammar, but rejected: %v\nlog: %q", pr.err, pr.log), v
		}
		if pr.log != "" {
			return fmt.Sprintf("accepted, yet the log writer got: %q", pr.log), v
		}
		return "", v
	}
	if pr.err == nil {
		at := "end of input"
		if v.FailTok < len(c.Toks) {
			at = fmt.Sprintf("token %d %q", v.FailTok, c.Toks[v.FailTok].S)
		}
		return fmt.Sprintf("not derivable from the grammar (%s at %s), but accepted", v.Class, at), v
	}
	if !diagLineRe.MatchString(pr.log) {
		return fmt.Sprintf("rejected without a diagnostic of the form 'line L:C: error': log=%q", pr.log), v
	}
	// Interpret must return an error and no results (the parse fails before
	// anything runs, so nothing is executed)
	a := interpret(c.Src)
	switch {
	case a.Panic != nil:
		return fmt.Sprintf("Interpret panicked: %v", a.Panic), v
	case a.Err == nil:
		return "Parse rejects, Interpret returns no error", v
	case len(a.Blocks) != 0 || a.Binding != nil:
		return fmt.Sprintf("rejection with results: blocks=%v binding=%v", a.Blocks, a.Binding), v
	case a.Out != "":
		return fmt.Sprintf("rejected program produced output %q", a.Out), v
	case !diagLineRe.MatchString(a.Log):
		return fmt.Sprintf("Interpret: rejected without a diagnostic: log=%q", a.Log), v
	}
	return "", v
}

func cfgC17(t *rapid.T) gen.ProgCfg {
	cfg := gen.DefaultCfg()
	cfg.MaxTop = 6
	cfg.MaxBody = 4
	cfg.MaxDepth = 2
	cfg.ExprDepth = 3
	cfg.Binds = true
	cfg.PWild = 20
	cfg.PEmbedAsg = 25
	cfg.PPar = 10
	cfg.PBadLit = gen.Pick(t, "pbadlit", []int{0, 0, 2})
	cfg.PBadBind = 8
	cfg.BindInBlocks = gen.Chance(t, 40, "bindinblocks")
	cfg.Names = []string{"a", "b", "c", "_d", "_", "e_"}
	return cfg
}

func c17Feats(c caseC17, v ref.Verdict) (bool, []string) {
	var feats []string
	kind := "sentence"
	if c.Mut != nil {
		kind = "mutant-" + c.Mut.Kind
	}
	verdict := "accepted"
	if !v.Accept {
		verdict = "rejected-" + v.Class
	}
	if v.Unspecified != "" {
		verdict = "skipped"
		feats = append(feats, "skipped:"+v.Unspecified)
	}
	feats = append(feats, kind+":"+verdict)
	for i := 0; i+2 < len(c.Toks); i++ {
		if (c.Toks[i].S == "or" || c.Toks[i].S == "and" || c.Toks[i].S == "not") && c.Toks[i+1].K == gen.KWord && !gen.IsKeyword(c.Toks[i+1].S) && c.Toks[i+2].S == "=" {
			feats = append(feats, "pattern:boolop-ident-assign")
			break
		}
	}
	asgInside, bareExpr := false, false
	depth := 0
	for i, tk := range c.Toks {
		switch tk.S {
		case "{":
			depth++
		case "}":
			depth--
		case "=":
			if i >= 2 && tk.K == gen.KPunct {
				switch c.Toks[i-2].S {
				case "(", "=":
					asgInside = true
				}
			}
		}
		if depth > 0 && i > 0 && (c.Toks[i-1].S == "{" || c.Toks[i-1].S == ";") && tk.K != gen.KWord {
			bareExpr = true
		}
	}
	nt := len(c.Toks) >= 8 && (c.Mut != nil || asgInside || bareExpr) && v.Unspecified == ""
	return nt, feats
}

func TestC17(t *testing.T) {
	rec := harness.Get("C17")
	rec.SetScope("sentences")
	if path := replayPath(); path != "" {
		var c caseC17
		must(harness.LoadReplay(path, &c))
		if c.Toks == nil {
			TestC17Recovery(t)
			return
		}
		c.Src, _ = renderChecked(c.Toks, c.Layout)
		if viol, _ := checkC17(c); viol != "" {
			rec.Fail(t, c, "%s\nsource: %q", viol, c.Src)
		}
		return
	}
	rapid.Check(t, func(t *rapid.T) {
		p, _ := gen.GenProg(t, cfgC17(t))
		toks := gen.RenderProg(p).Toks
		// self-consistency of the two reference models on sentences
		o := ref.Run(p)
		if v0 := ref.Recognize(toks); v0.Unspecified == "" && o.Unspecified != "bind inside a block" && v0.Accept != (o.Compile == nil) {
			panic(fmt.Sprintf("HARNESS-ERROR: R1 and R2 disagree on a generated sentence: R2 accept=%v R1 compile=%v\n%v", v0.Accept, o.Compile, toks))
		}
		lo := gen.LayoutOpts{Plain: gen.Pick(t, "plainpct", []int{50, 90})}
		one := func(c caseC17) {
			c.Layout = gen.GenLayout(t, c.Toks, lo)
			c.Src, _ = renderChecked(c.Toks, c.Layout)
			viol, v := checkC17(c)
			nt, feats := c17Feats(c, v)
			rec.Case(nt, harness.Hash(c.Src), feats...)
			if nt {
				rec.Sample(func() any { return map[string]any{"src": clip(c.Src, 300), "mutation": c.Mut, "accept": v.Accept} })
			}
			if viol != "" {
				rec.Fail(t, c, "%s\nsource: %q", viol, c.Src)
			}
		}
		if len(toks) == 0 || gen.Chance(t, 20, "sentence") {
			one(caseC17{Toks: toks})
			return
		}
		if thorough() && len(toks) <= 40 && gen.Chance(t, 10, "allpositions") {
			// every position, every kind of edit
			for at := 0; at <= len(toks); at++ {
				muts := []gen.Mutation{{Kind: "insert", At: at, Tok: gen.Pick(t, "instok", gen.Vocabulary)}}
				if at < len(toks) {
					muts = append(muts, gen.Mutation{Kind: "delete", At: at},
						gen.Mutation{Kind: "replace", At: at, Tok: gen.Pick(t, "reptok", gen.Vocabulary)})
				}
				if at < len(toks)-1 {
					muts = append(muts, gen.Mutation{Kind: "transpose", At: at})
				}
				for _, m := range muts {
					m := m
					one(caseC17{Toks: m.Apply(toks), Mut: &m})
				}
			}
			rec.Count("sentences-with-every-position-mutated", 1)
			return
		}
		m := gen.GenMutation(t, toks, 12)
		one(caseC17{Toks: m.Apply(toks), Mut: &m})
	})
}

// ---------- recovery rule ----------

type caseC17R struct {
	Src    string `json:"src"`
	SpanI  [2]int `json:"span_i"` // byte extent of the first faulty statement
	SpanJ  [2]int `json:"span_j"` // byte extent of the later faulty statement
	Faults string `json:"faults"`
	Spill  bool   `json:"spill,omitempty"` // second family: two diagnostics are due within SpanJ
}

var diagPosRe = regexp.MustCompile(`(?m)^line (\d+):(\d+): error`)

// diagOffsets turns the line:col of every diagnostic into byte offsets of
// the source (own newline table).
func diagOffsets(src, log string) []int {
	var nl []int
	for i := 0; i < len(src); i++ {
		if src[i] == '\n' {
			nl = append(nl, i)
		}
	}
	var out []int
	for _, m := range diagPosRe.FindAllStringSubmatch(log, -1) {
		var l, c int
		fmt.Sscan(m[1], &l)
		fmt.Sscan(m[2], &c)
		if l < 1 || l > len(nl)+1 {
			out = append(out, -1)
			continue
		}
		if l == 1 {
			out = append(out, c-1)
		} else {
			out = append(out, nl[l-2]+c)
		}
	}
	return out
}

func checkC17R(c caseC17R) string {
	pr := parseWhole(c.Src, "n")
	if pr.pan != nil {
		return fmt.Sprintf("Parse panicked: %v", pr.pan)
	}
	if pr.err == nil {
		return "two planted syntax errors, yet accepted"
	}
	offs := diagOffsets(c.Src, pr.log)
	if c.Spill {
		n := 0
		for _, o := range offs {
			if o > c.SpanJ[0] && o <= c.SpanJ[1] {
				n++
			}
		}
		if n < 2 {
			return fmt.Sprintf("the unclosed statement's error is found at the keyword of the next statement, which has an error of its own: two diagnostics are due in bytes %v, %d found; log=%q", c.SpanJ, n, pr.log)
		}
		return ""
	}
	inI, inJ := false, false
	for _, o := range offs {
		if o > c.SpanI[0] && o <= c.SpanI[1] {
			inI = true
		}
		if o > c.SpanJ[0] && o <= c.SpanJ[1] {
			inJ = true
		}
	}
	if !inI {
		return fmt.Sprintf("no diagnostic located in the first faulty statement (bytes %v); log=%q", c.SpanI, pr.log)
	}
	if !inJ {
		return fmt.Sprintf("the error in the later toplevel statement (bytes %v) got no diagnostic of its own: it was hidden by the earlier one; log=%q", c.SpanJ, pr.log)
	}
	return ""
}

func TestC17Recovery(t *testing.T) {
	rec := harness.Get("C17")
	rec.SetScope("recovery")
	if path := replayPath(); path != "" {
		var c caseC17R
		must(harness.LoadReplay(path, &c))
		if viol := checkC17R(c); viol != "" {
			rec.Fail(t, c, "%s\nsource: %q", viol, c.Src)
		}
		return
	}
	faultToks := []gen.Tok{gen.P(")"), gen.P("}"), gen.P("*"), gen.P("/"), gen.P("=="), gen.P(":"), gen.P("->"), gen.W("and"), gen.W("or"), gen.P(")")}
	rapid.Check(t, func(t *rapid.T) {
		cfg := cfgC17(t)
		cfg.Binds = false
		cfg.MaxTop = 7
		cfg.PWild = 5
		cfg.WVar, cfg.WAsg, cfg.WPrint, cfg.WDef = 30, 25, 30, 15
		p, _ := gen.GenProg(t, cfg)
		r := gen.RenderProg(p)
		if ref.Run(p).Compile != nil || len(p.Stmts) < 2 {
			rec.Case(false, harness.Hash("r-skip"), "recovery:skipped-unsuitable-program")
			return
		}
		// statement i: toplevel var-with-initializer, eval or print; j: any later one
		var cand []int
		for k, s := range p.Stmts[:len(p.Stmts)-1] {
			if s.K == "print" || s.K == "eval" || (s.K == "var" && s.E != nil) {
				cand = append(cand, k)
			}
		}
		if len(cand) == 0 {
			rec.Case(false, harness.Hash("r-skip"), "recovery:skipped-unsuitable-program")
			return
		}
		i := gen.Pick(t, "stmti", cand)
		if gen.Chance(t, 30, "spill") {
			// second family: statement i lacks its closing parenthesis, so its
			// error is found at the keyword of statement i+1 (which, being
			// looked for as a ')' and not as an operand, stays unconsumed);
			// statement i+1 has an error of its own, possibly that the input
			// ends right after its keyword. Two diagnostics are due from the
			// keyword of i+1 on: the one of i and the one i+1 gets for itself.
			j := i + 1
			si, sj := r.SSpan[p.Stmts[i]], r.SSpan[p.Stmts[j]]
			loI := si.First + 1
			if p.Stmts[i].K == "var" {
				loI = si.First + 3
			}
			mi := gen.Mutation{Kind: "insert", At: loI, Tok: gen.P("(")}
			vi := ref.Recognize(mi.Apply(r.Toks))
			if vi.Accept || vi.Unspecified != "" || vi.AtOperand || vi.Class != "syntax" || vi.FailTok != sj.First+1 {
				rec.Case(false, harness.Hash("r-skip3"), "recovery:skipped-spill-premise")
				return
			}
			var toks []gen.Tok
			var faultJ string
			cut := j == len(p.Stmts)-1 && gen.Bool(t, "cutshort")
			if cut {
				// the input ends after the keyword of the last statement
				toks = append([]gen.Tok{}, r.Toks[:sj.First+1]...)
				if vj := ref.Recognize(toks); vj.Accept || vj.Unspecified != "" || vj.FailTok != len(toks) {
					rec.Case(false, harness.Hash("r-skip3"), "recovery:skipped-spill-premise")
					return
				}
				faultJ = "input ends after the keyword"
			} else {
				atJ := sj.First + 1 + gen.Uniform(t, sj.Last-sj.First+1, "atj")
				fj := gen.Pick(t, "fj", faultToks)
				mj := gen.Mutation{Kind: "insert", At: atJ, Tok: fj}
				vj := ref.Recognize(mj.Apply(r.Toks))
				if vj.Accept || vj.Unspecified != "" || vj.FailTok < sj.First+1 || vj.FailTok > sj.Last+1 {
					rec.Case(false, harness.Hash("r-skip3"), "recovery:skipped-spill-premise")
					return
				}
				toks = mj.Apply(r.Toks)
				faultJ = fmt.Sprintf("insert %q at token %d", fj.S, atJ)
			}
			toks = mi.Apply(toks)
			lay := gen.GenLayout(t, toks, gen.LayoutOpts{Plain: 80})
			if cut && gen.Bool(t, "nothingafter") {
				lay.Gaps[len(toks)] = ""
			}
			src, pos := renderChecked(toks, lay)
			kw := sj.First + 1 // index of the keyword of statement j after the insertion in i
			end := len(src)
			if !cut {
				end = pos[sj.Last+2].End
			}
			c := caseC17R{Src: src, Spill: true, SpanJ: [2]int{pos[kw].Start, end},
				Faults: fmt.Sprintf("'(' without ')' in statement %d (%s); statement %d (%s): %s", i, p.Stmts[i].K, j, p.Stmts[j].K, faultJ)}
			viol := checkC17R(c)
			rec.Case(true, harness.Hash("rec", src), "recovery:spill", "recovery:later-stmt-"+p.Stmts[j].K, fmt.Sprintf("recovery:cut-short=%v", cut))
			rec.Sample(func() any { return map[string]any{"recovery_src": clip(src, 300), "faults": c.Faults} })
			if viol != "" {
				rec.Fail(t, c, "%s\n%s\nsource: %q", viol, c.Faults, src)
			}
			return
		}
		j := i + 1 + gen.Uniform(t, len(p.Stmts)-i-1, "stmtj")
		si, sj := r.SSpan[p.Stmts[i]], r.SSpan[p.Stmts[j]]
		// fault positions: inside the expression of i (after 'var x =' resp. the keyword), after the first token of j
		loI := si.First + 1
		if p.Stmts[i].K == "var" {
			loI = si.First + 3
		}
		atI := loI + gen.Uniform(t, si.Last-loI+2, "ati")
		atJ := sj.First + 1 + gen.Uniform(t, sj.Last-sj.First+1, "atj")
		fi, fj := gen.Pick(t, "fi", faultToks), gen.Pick(t, "fj", faultToks)
		mi := gen.Mutation{Kind: "insert", At: atI, Tok: fi}
		mj := gen.Mutation{Kind: "insert", At: atJ, Tok: fj}
		// each fault alone must be diagnosed strictly inside its own statement
		vi := ref.Recognize(mi.Apply(r.Toks))
		vj := ref.Recognize(mj.Apply(r.Toks))
		okI := !vi.Accept && vi.Unspecified == "" && vi.FailTok >= si.First && vi.FailTok <= si.Last+1 && vi.FailTok < len(r.Toks)+1
		okJ := !vj.Accept && vj.Unspecified == "" && vj.FailTok >= sj.First && vj.FailTok <= sj.Last+1
		// the failing token must still belong to the statement: the inserted
		// token shifts the span by one
		if !okI || !okJ || vi.FailTok > si.Last+1 || vj.FailTok > sj.Last+1 {
			rec.Case(false, harness.Hash("r-skip2"), "recovery:skipped-fault-not-inside-statement")
			return
		}
		// if the failure of i alone is at the very token after the statement
		// (the next statement's keyword), the premise does not hold
		if vi.FailTok == si.Last+1 && atI <= si.Last {
			// the inserted token is inside, so Last+1 is the shifted last token: fine
		}
		toks := mj.Apply(r.Toks) // j first (higher index), then i
		toks = mi.Apply(toks)
		lay := gen.GenLayout(t, toks, gen.LayoutOpts{Plain: 80})
		src, pos := renderChecked(toks, lay)
		// spans after both insertions: i grows by one token; j shifts by one and grows by one
		c := caseC17R{Src: src, Faults: fmt.Sprintf("insert %q at token %d of statement %d (%s); insert %q at token %d of statement %d (%s)", fi.S, atI, i, p.Stmts[i].K, fj.S, atJ, j, p.Stmts[j].K)}
		c.SpanI = [2]int{pos[si.First].Start, pos[si.Last+1].End}
		c.SpanJ = [2]int{pos[sj.First+1].Start, pos[sj.Last+2].End}
		viol := checkC17R(c)
		rec.Case(true, harness.Hash("rec", src), "recovery:two-faults", "recovery:later-stmt-"+p.Stmts[j].K)
		rec.Sample(func() any { return map[string]any{"recovery_src": clip(src, 300), "faults": c.Faults} })
		if viol != "" {
			rec.Fail(t, c, "%s\n%s\nsource: %q", viol, c.Faults, src)
		}
	})
}

func TestReplayC17(t *testing.T) {
	replayOnly(t)
	raw := mustRead(replayPath())
	if strings.Contains(raw, `"span_j"`) {
		TestC17Recovery(t)
		return
	}
	TestC17(t)
}
