package props

import (
	"bytes"
	"fmt"
	"strings"
	"testing"
	"testing/iotest"

	"github.com/wkhere/bcl"

	"verif/harness"
)

// TestC09Sweeps enumerates alignments that random sizes hit only once in
// 4096: every program-name length 0..4300 in front of a fixed set of
// constants of every kind (so each constant meets every phase of the
// 4096-byte buffers of Dump and Load), and every code size in windows around
// the varint classes and the multiples of 4096.
func TestC09Sweeps(t *testing.T) {
	if !firstShard() {
		t.Skip("runs in the first shard only")
	}
	rec := harness.Get("C09")
	rec.SetScope("sweeps")
	roundTrip := func(src, name, what string) {
		var o1, l1 bytes.Buffer
		p1, err := bcl.Parse([]byte(src), name, bcl.OptOutput(&o1), bcl.OptLogger(&l1))
		if err != nil {
			panic("HARNESS-ERROR: sweep program does not parse: " + err.Error())
		}
		c := map[string]any{"sweep": what, "name_len": len(name), "src_len": len(src)}
		d1, pan, derr := dumpOf(p1)
		if pan != nil || derr != nil {
			rec.Fail(t, c, "%s: Dump failed: %v %v", what, pan, derr)
			return
		}
		for _, mode := range []string{"whole", "onebyte"} {
			if mode == "onebyte" && len(d1) > 6000 {
				continue
			}
			var r interface{ Read([]byte) (int, error) } = bytes.NewReader(d1)
			if mode == "onebyte" {
				r = iotest.OneByteReader(bytes.NewReader(d1))
			}
			var o2, l2 bytes.Buffer
			p2, lerr, lpan := loadProg(r, "other", bcl.OptOutput(&o2), bcl.OptLogger(&l2))
			if lpan != nil || lerr != nil {
				rec.Fail(t, c, "%s (%s reads): LoadProg of a fresh dump failed: %v %v", what, mode, lpan, lerr)
				return
			}
			d2, pan2, derr2 := dumpOf(p2)
			if pan2 != nil || derr2 != nil || !bytes.Equal(d1, d2) {
				rec.Fail(t, c, "%s (%s reads): dump of the loaded program differs (%d vs %d bytes) %v %v", what, mode, len(d2), len(d1), pan2, derr2)
				return
			}
			a1 := executeWith(p1, &o1, &l1)
			a2 := executeWith(p2, &o2, &l2)
			if a1.Out != a2.Out || errStr(a1.Err) != errStr(a2.Err) || a1.Panic != nil || a2.Panic != nil {
				rec.Fail(t, c, "%s (%s reads): loaded program runs differently: %q/%v vs %q/%v", what, mode, clip(a1.Out, 100), a1.Err, clip(a2.Out, 100), a2.Err)
				return
			}
			o1.Reset()
		}
	}
	// (1) name lengths
	src := "var big = 9223372036854775807\nprint big - 72057594037927936\nprint 2.5 + 1e300\nprint \"" + strings.Repeat("s", 300) +
		"\"\ndef t \"n\" { a = 0x7fffffffffffffff; def u { b = \"x\" } }\nprint 123456789\nbind t -> struct\n"
	n := 0
	for l := 0; l <= 4300; l++ {
		roundTrip(src, strings.Repeat("N", l), fmt.Sprintf("name length %d", l))
		n++
	}
	// (2) code sizes: 'eval 1' is two bytes of code, 'eval 2' three
	windows := [][2]int{{1, 300}, {2250, 2320}, {4050, 4140}, {8150, 8230}, {12250, 12320}, {16340, 16420}}
	for _, w := range windows {
		for size := w[0]; size <= w[1]; size++ {
			// size = 1 (RET) + 2a + 3b
			body := size - 1
			b := 0
			if body%2 == 1 {
				b = 1
			}
			if body < 3*b {
				continue
			}
			a := (body - 3*b) / 2
			s := strings.Repeat("eval 1\n", a) + strings.Repeat("eval 2\n", b) + "print 7\n"
			// 'print 7' adds 3 bytes: keep the arithmetic simple by measuring
			roundTrip(s, "n", fmt.Sprintf("code size about %d", size+3))
			n++
		}
	}
	rec.Case(true, harness.Hash("sweep-names"), "sweep:name-length-0..4300")
	rec.Case(true, harness.Hash("sweep-code"), "sweep:code-size-windows")
	rec.SetExtra("alignment_sweep_round_trips", n)
	rec.SetExtra("alignment_sweeps", "every program-name length 0..4300 in front of constants of every kind; every code size in the windows 1-300, 2250-2320, 4050-4140, 8150-8230, 12250-12320, 16340-16420")
}
