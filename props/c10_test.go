package props

import (
	"bytes"
	"fmt"
	"regexp"
	"strconv"
	"strings"
	"testing"

	"pgregory.net/rapid"

	"github.com/wkhere/bcl"

	"verif/bc"
	"verif/gen"
	"verif/harness"
	"verif/ref"
)

// C10 — compiled bytecode is well-formed along every path.

type caseC10 struct {
	caseProg
	// Scale > 0: the limit family "X and/or (1+1+...)" whose skipped operand
	// compiles to about Scale bytes of code
	Scale  int      `json:"scale,omitempty"`
	ScOp   string   `json:"scop,omitempty"`
	Prefix int      `json:"prefix,omitempty"`
	Wrap   int      `json:"wrap,omitempty"` // context of the long short-circuit expression, see gen.WrapShortCircuit
	Term   int      `json:"term,omitempty"` // repeated term, see gen.JumpLimitExprT
	Plant  []string `json:"plant,omitempty"`
}

func scaleProg(op string, prefix, terms, wrap, term int) *gen.Prog {
	e := gen.WrapShortCircuit(gen.JumpLimitExprT(op, prefix, terms, term), op, wrap)
	stmts := []*gen.Stmt{
		{K: "print", E: e},
		{K: "print", E: &gen.Expr{K: "int", T: "7"}},
	}
	if term == 1 {
		stmts = append([]*gen.Stmt{{K: "var", Name: "v", E: &gen.Expr{K: "int", T: "1"}}}, stmts...)
	}
	return &gen.Prog{Stmts: stmts}
}

var tosMaxRe = regexp.MustCompile(`xstats\.tosMax:\s+(\d+)`)

func checkC10(c caseC10) (viol string, nontrivial bool, feats []string) {
	src := c.Src
	if c.Scale > 0 {
		// prefix + n*(ONE ADD) bytes of skipped code
		r := gen.RenderProg(scaleProg(c.ScOp, c.Prefix, c.Scale, c.Wrap, c.Term))
		src, _ = gen.Render(r.Toks, gen.PlainLayout(r.Toks))
		feats = append(feats, "family:jump-limit")
	} else {
		if o := ref.Run(c.Prog); o.Unspecified != "" && o.Unspecified != "comparison with NaN" {
			return "", false, append(feats, "skipped:"+o.Unspecified)
		}
	}
	var out, log bytes.Buffer
	var p *bcl.Prog
	var perr error
	var pan any
	func() {
		defer func() { pan = recover() }()
		p, perr = bcl.Parse([]byte(src), "n", bcl.OptOutput(&out), bcl.OptLogger(&log))
	}()
	if pan != nil {
		return fmt.Sprintf("Parse panicked: %v", pan), false, feats
	}
	if perr != nil {
		return "", false, append(feats, "skipped:not-accepted")
	}
	d, pan, derr := dumpOf(p)
	if pan != nil || derr != nil {
		return fmt.Sprintf("Dump failed: %v %v", pan, derr), false, feats
	}
	f, err := bc.Decode(d)
	if err != nil {
		return fmt.Sprintf("independent decoder rejects the dump: %v", err), false, feats
	}
	vr, probs := bc.Verify(f)
	if len(probs) > 0 {
		return "bytecode is not well-formed: " + strings.Join(probs, "; "), false, feats
	}
	// dynamic cross-check
	a := executeWith(p, &out, &log, bcl.OptStats(true))
	if a.Panic != nil {
		return fmt.Sprintf("Execute panicked: %v", a.Panic), false, feats
	}
	if a.Err != nil && strings.Contains(a.Err.Error(), "internal error") {
		return fmt.Sprintf("Execute ended in an internal error: %v", a.Err), false, feats
	}
	if m := tosMaxRe.FindStringSubmatch(a.Out); m != nil {
		n, _ := strconv.Atoi(m[1])
		if n > vr.MaxDepth {
			return fmt.Sprintf("run reached stack depth %d, static maximum over all paths is %d", n, vr.MaxDepth), false, feats
		}
	}
	// executed trace vs skipped side: a jump not taken or longer than 255
	feats = append(feats, fmt.Sprintf("jumps:%s", bucket(vr.Jumps)), fmt.Sprintf("maxjump:%s", bucket(vr.MaxJumpLen)),
		fmt.Sprintf("maxdepth:%s", bucket(vr.MaxDepth)), fmt.Sprintf("blocks:%d", vr.MaxBlocks))
	localsInNested := false
	if c.Prog != nil {
		sh := shapeOf(c.Prog)
		localsInNested = sh.maxDepth >= 2 && sh.localsAfter
	}
	if len(c.Plant) > 0 {
		feats = append(feats, "planted-constant-collisions")
	}
	nontrivial = vr.Jumps >= 2 || vr.MaxJumpLen > 255 || localsInNested
	return "", nontrivial, feats
}

func bucket(n int) string {
	switch {
	case n == 0:
		return "0"
	case n == 1:
		return "1"
	case n <= 3:
		return "2-3"
	case n <= 10:
		return "4-10"
	case n <= 50:
		return "11-50"
	case n <= 255:
		return "51-255"
	case n <= 5000:
		return "256-5000"
	case n <= 65000:
		return "5001-65000"
	}
	return ">65000"
}

func cfgC10(t *rapid.T) gen.ProgCfg {
	cfg := gen.DefaultCfg()
	cfg.MaxTop = 8
	cfg.MaxBody = 6
	cfg.MaxDepth = gen.Pick(t, "maxdepth", []int{2, 4, 8, 16})
	cfg.ExprDepth = gen.Pick(t, "exprdepth", []int{3, 5, 7})
	cfg.PWild = 20
	cfg.PShort = 45
	cfg.PEmbedAsg = 20
	cfg.Binds = true
	cfg.PDivZero = 5
	cfg.PUnknown = 5
	cfg.WVar, cfg.WAsg, cfg.WPrint, cfg.WDef, cfg.WBind = 30, 25, 15, 25, 5
	return cfg
}

func TestC10(t *testing.T) {
	rec := harness.Get("C10")
	if path := replayPath(); path != "" {
		var c caseC10
		must(harness.LoadReplay(path, &c))
		if c.Prog != nil {
			c.rerender()
		}
		if viol, _, _ := checkC10(c); viol != "" {
			rec.Fail(t, c, "%s", viol)
		}
		return
	}
	rapid.Check(t, func(t *rapid.T) {
		var c caseC10
		if gen.Chance(t, 5, "limitfamily") {
			c.ScOp = gen.Pick(t, "scop", []string{"and", "or"})
			// skipped code = 1+2n bytes; the jump also spans nothing else for
			// 'and' (POP is before), so n around 32767 puts it at the limit
			c.Prefix = gen.Int(t, 0, 4, "prefix")
			c.Term = gen.Uniform(t, 3, "term")
			if c.Term == 0 {
				c.Scale = 32767 + gen.Int(t, -14, 14, "delta")
			} else {
				// three bytes of code per term
				c.Scale = 21845 + gen.Int(t, -9, 9, "delta3")
			}
			c.Wrap = gen.Uniform(t, 6, "wrap")
			c.Src = fmt.Sprintf("<print %s-family, prefix kind %d, %d terms of kind %d, context %d>", c.ScOp, c.Prefix, c.Scale, c.Term, c.Wrap)
		} else {
			p, feat := gen.GenProg(t, cfgC10(t))
			if gen.Chance(t, 3, "special") {
				p, _ = gen.SpecialProg(t)
			}
			if gen.Chance(t, 30, "plant") {
				c.Plant = gen.PlantCollisions(t, p)
			}
			r := gen.RenderProg(p)
			lay := gen.GenLayout(t, r.Toks, gen.LayoutOpts{Plain: 97})
			src, _ := renderChecked(r.Toks, lay)
			c.caseProg = caseProg{Prog: p, Layout: lay, Src: src, Feat: feat}
		}
		viol, nt, feats := checkC10(c)
		rec.Case(nt, harness.Hash(c.Src), feats...)
		if nt {
			rec.Sample(func() any { return map[string]any{"src": clip(c.Src, 400)} })
		}
		if viol != "" {
			rec.Fail(t, c, "%s\nsource:\n%s", viol, clip(c.Src, 800))
		}
	})
}

func TestReplayC10(t *testing.T) { replayOnly(t); TestC10(t) }

// TestC10Sweeps enumerates the operand-value sub-space: for every k in 0..300
// and every statement shape of gen.OperandSweepProg the program whose
// boundary instructions carry the operand k (slot or constant index), so that
// an operand byte takes every value an opcode has, and every value around
// the one-byte/two-byte operand boundary.
func TestC10Sweeps(t *testing.T) {
	if !firstShard() || replayPath() != "" {
		t.Skip("runs in the first shard only")
	}
	rec := harness.Get("C10")
	rec.SetScope("sweeps")
	n := 0
	for k := 0; k <= 300; k++ {
		for kind := 0; kind < gen.OperandSweepKinds; kind++ {
			p := gen.OperandSweepProg(k, kind)
			r := gen.RenderProg(p)
			lay := gen.PlainLayout(r.Toks)
			src, _ := renderChecked(r.Toks, lay)
			c := caseC10{caseProg: caseProg{Prog: p, Layout: lay, Src: src}}
			viol, _, _ := checkC10(c)
			n++
			if viol != "" {
				rec.Fail(t, c, "operand sweep k=%d kind=%d: %s\nsource:\n%s", k, kind, viol, clip(src, 600))
			}
		}
	}
	rec.Count("sweep:operand-value-programs", n)
	rec.SetExtra("exhaustive_subspace", "operand values 0..300 x 10 statement shapes in last position of a scope (gen.OperandSweepProg)")
}
