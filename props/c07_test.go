package props

import (
	"bytes"
	"fmt"
	"strings"
	"testing"
	"time"
	"unicode/utf8"

	"pgregory.net/rapid"

	"verif/gen"
	"verif/harness"
)

// C07 — streaming parse does not depend on how the input is chunked.

type caseC07 struct {
	srcCase
	Script []readStep `json:"script"`
	Kind   string     `json:"kind"`
}

// insideWhat classifies a boundary offset relative to the tokens (own
// tokenizer) and characters of the source.
func insideWhat(src string, toks []gen.TokPos, off int) string {
	if off <= 0 || off >= len(src) {
		return ""
	}
	if !utf8.RuneStart(src[off]) {
		return "inside-multibyte-char"
	}
	for _, tk := range toks {
		if off > tk.Start && off < tk.End {
			switch {
			case tk.K == gen.KStr:
				if src[off-1] == '\\' {
					return "inside-escape"
				}
				return "inside-string"
			case tk.K == gen.KPunct:
				return "inside-operator"
			}
			return "inside-token"
		}
	}
	return "between-tokens"
}

func compareChunked(whole parsed, fr fileResult) string {
	switch {
	case fr.timedOut:
		return "ParseFile did not return within the watchdog while Parse on the whole input returns"
	case fr.pan != nil:
		return fmt.Sprintf("ParseFile panicked: %v", fr.pan)
	case whole.pan != nil:
		return fmt.Sprintf("Parse panicked: %v", whole.pan)
	case (whole.err == nil) != (fr.err == nil):
		return fmt.Sprintf("Parse(whole): err=%v, ParseFile(chunked): err=%v\nlog whole: %q\nlog chunked: %q", whole.err, fr.err, clip(whole.log, 400), clip(fr.log, 400))
	case whole.log != fr.log:
		return fmt.Sprintf("diagnostic text differs:\nwhole:   %q\nchunked: %q", clip(whole.log, 600), clip(fr.log, 600))
	case whole.err == nil && !bytes.Equal(whole.dump, fr.dump):
		return fmt.Sprintf("compiled programs differ (dump %d vs %d bytes)", len(whole.dump), len(fr.dump))
	}
	return ""
}

func checkC07(c caseC07) (viol string, nontrivial bool, feats []string) {
	whole := parseWhole(c.Src, "f")
	f := &scriptFile{data: []byte(c.Src), script: c.Script, name: "f"}
	fr := parseFileWatch(f, 20*time.Second)
	viol = compareChunked(whole, fr)
	toks, _ := gen.Tokenize(c.Src)
	feats = append(feats, "class:"+c.Class, "partition:"+c.Kind)
	zero := false
	for _, st := range c.Script {
		if st.N == 0 && st.Err == "" {
			zero = true
		}
	}
	if zero {
		feats = append(feats, "zero-byte-read")
		nontrivial = true
	}
	seen := map[string]bool{}
	for _, b := range boundaries(c.Script, len(c.Src)) {
		w := insideWhat(c.Src, toks, b)
		if w != "" && !seen[w] {
			seen[w] = true
			feats = append(feats, "boundary:"+w)
		}
		if strings.HasPrefix(w, "inside-") {
			nontrivial = true
		}
	}
	return
}

// drawScript draws a partition of n bytes.
func drawScript(t *rapid.T, n int) (string, []readStep) {
	var sc []readStep
	switch gen.Weighted(t, "partkind", 20, 35, 25, 20) {
	case 0:
		return "onebyte", onesScript(n)
	case 1:
		k := gen.Int(t, 1, 12, "nreads")
		for i := 0; i < k; i++ {
			sc = append(sc, readStep{N: gen.Int(t, 1, 64, "size")})
		}
		if gen.Bool(t, "thenones") {
			sc = append(sc, onesScript(n)...)
		}
		return "random-small", withZeros(t, sc)
	case 2:
		k := gen.Int(t, 1, 8, "nreads")
		for i := 0; i < k; i++ {
			sc = append(sc, readStep{N: gen.Int(t, 1, 4096, "size")})
		}
		return "random-large", withZeros(t, sc)
	}
	// full pages; the last one carries EOF with its data sometimes
	for off := 0; off < n; off += 4096 {
		st := readStep{N: 4096}
		if off+4096 >= n && gen.Bool(t, "eofwithdata") {
			st.Err = "eof"
		}
		sc = append(sc, st)
	}
	return "pages", sc
}

func onesScript(n int) []readStep {
	sc := make([]readStep, n)
	for i := range sc {
		sc[i].N = 1
	}
	return sc
}

func withZeros(t *rapid.T, sc []readStep) []readStep {
	if !gen.Chance(t, 40, "zeros") {
		return sc
	}
	var out []readStep
	for _, s := range sc {
		if gen.Chance(t, 25, "zerohere") {
			out = append(out, readStep{N: 0})
		}
		out = append(out, s)
	}
	if gen.Chance(t, 30, "zerofirst") {
		out = append([]readStep{{N: 0}}, out...)
	}
	if gen.Chance(t, 8, "zeroburst") {
		// a long run of consecutive zero-byte reads (a reader that polls)
		at := gen.Int(t, 0, len(out), "burstat")
		burst := make([]readStep, gen.Pick(t, "burstlen", []int{16, 99, 100, 101, 128, 256, 1000}))
		out = append(out[:at:at], append(burst, out[at:]...)...)
	}
	return out
}

func cfgC07(t *rapid.T) gen.ProgCfg {
	cfg := gen.DefaultCfg()
	cfg.MaxTop = 5
	cfg.MaxBody = 4
	cfg.MaxDepth = 2
	cfg.ExprDepth = 3
	cfg.Binds = true
	cfg.PWild = 10
	return cfg
}

func TestC07(t *testing.T) {
	rec := harness.Get("C07")
	if path := replayPath(); path != "" {
		var c caseC07
		must(harness.LoadReplay(path, &c))
		if viol, _, _ := checkC07(c); viol != "" {
			rec.Fail(t, c, "%s", viol)
		}
		return
	}
	rapid.Check(t, func(t *rapid.T) {
		lo := gen.LayoutOpts{Plain: gen.Pick(t, "plainpct", []int{40, 70, 90}), PHuge: 1}
		sc := genSource(t, cfgC07(t), lo)
		// page-sized inputs: pad in front with a comment so that the 4096-byte
		// boundary visits every phase relative to the tokens
		if gen.Chance(t, 25, "pagesize") && len(sc.Src) > 0 {
			target := 4096*gen.Int(t, 1, 3, "pages") - gen.Uniform(t, len(sc.Src)+1, "phase")
			if pad := target - 2; pad > 0 {
				unit := gen.Pick(t, "padunit", []string{"c", "é", " ", "日", "#"})
				p := strings.Repeat(unit, pad/len(unit)+1)[:pad]
				// cut back to a rune boundary
				for len(p) > 0 && !utf8.ValidString(p) {
					p = p[:len(p)-1]
				}
				sc.Src = "#" + p + "\n" + sc.Src
			}
		}
		if gen.Chance(t, 4, "tail") {
			// the input ends inside a multi-byte character, or just after one
			sc.Src += gen.Pick(t, "tailkind", []string{"# caf\xc3", "#\xe2\x82", "\xf0\x9f\x98", "print \"\xc3", "\xc3", "# \u00e9", "\u00a0", "\xe2"})
			sc.Class += "+tail"
		}
		// exhaustive two-way splits for short inputs
		if len(sc.Src) <= 200 && gen.Chance(t, 35, "allsplits") {
			whole := parseWhole(sc.Src, "f")
			for cut := 0; cut <= len(sc.Src); cut++ {
				c := caseC07{srcCase: sc, Kind: "two-way-split", Script: []readStep{{N: cut}}}
				if gen.Bool(t, "zerointwoway") {
					c.Script = []readStep{{N: cut}, {N: 0}}
				}
				f := &scriptFile{data: []byte(c.Src), script: c.Script, name: "f"}
				fr := parseFileWatch(f, 20*time.Second)
				if viol := compareChunked(whole, fr); viol != "" {
					rec.Fail(t, c, "%s\nsource (two-way split at %d): %q", viol, cut, c.Src)
				}
			}
			rec.Count("two-way-splits-tried", len(sc.Src)+1)
			// every split with a middle read of 1..3 bytes: a token, an
			// operator, an escape or a character spread over three reads
			if thorough() || gen.Chance(t, 30, "threeway") {
				for cut := 0; cut < len(sc.Src); cut++ {
					for w := 1; w <= 3 && cut+w <= len(sc.Src); w++ {
						c := caseC07{srcCase: sc, Kind: "three-way-split", Script: []readStep{{N: cut}, {N: w}}}
						if cut == 0 {
							c.Script = []readStep{{N: w}, {N: 1}}
						}
						f := &scriptFile{data: []byte(c.Src), script: c.Script, name: "f"}
						fr := parseFileWatch(f, 20*time.Second)
						if viol := compareChunked(whole, fr); viol != "" {
							rec.Fail(t, c, "%s\nsource (reads %v): %q", viol, c.Script, c.Src)
						}
					}
				}
				rec.Count("three-way-splits-tried", 3*len(sc.Src))
			}
			rec.Case(len(sc.Src) > 3, harness.Hash(sc.Src, "allsplits"), "class:"+sc.Class, "partition:all-two-way-splits")
			return
		}
		c := caseC07{srcCase: sc}
		c.Kind, c.Script = drawScript(t, len(sc.Src))
		viol, nt, feats := checkC07(c)
		rec.Case(nt, harness.Hash(c.Src, fmt.Sprint(c.Script)), feats...)
		if nt {
			rec.Sample(func() any {
				return map[string]any{"class": c.Class, "src": clip(c.Src, 200), "partition": c.Kind, "first_reads": clipSteps(c.Script)}
			})
		}
		if viol != "" {
			rec.Fail(t, c, "%s\nsource: %q\nreads: %v", viol, clip(c.Src, 500), clipSteps(c.Script))
		}
	})
}

func clipSteps(s []readStep) string {
	var sb strings.Builder
	for i, st := range s {
		if i >= 24 {
			fmt.Fprintf(&sb, "...(%d reads)", len(s))
			break
		}
		fmt.Fprintf(&sb, "%d%s ", st.N, st.Err)
	}
	return sb.String()
}

func TestReplayC07(t *testing.T) { replayOnly(t); TestC07(t) }
