package props

import (
	"bytes"
	"io"
	"os"
	"path/filepath"
	"regexp"
	"strconv"
	"testing"

	"github.com/wkhere/bcl"
)

// Native coverage-guided fuzz targets of C06 (thorough tier only; the Go
// fuzz engine runs them in its own worker processes, which is the isolation
// a crash in a library goroutine needs). Inputs that could repeat strings
// beyond the property's memory bound are skipped.

func fuzzSeeds(f *testing.F, withChunk bool) {
	add := func(b []byte) {
		if withChunk {
			for _, c := range []uint16{0, 1, 7, 4096} {
				f.Add(b, c)
			}
		} else {
			f.Add(b)
		}
	}
	files, _ := filepath.Glob("/repo/testdata/*.bcl")
	for _, fn := range files {
		if b, err := os.ReadFile(fn); err == nil && len(b) < 8192 && !bytes.Contains(b, []byte("*")) {
			add(b)
		}
	}
	for _, s := range []string{"", "print 08", "print 0x", "print 9223372036854775808", "print 1e999", `print "\q"`, `def x "\q" {}`,
		"def a { def x {}; print x == x }", "var a = 1\ndef b \"n\" { x = a + 2.5; y = \"s\" }\nbind b -> struct\n", "print 1 and 2 or not 3 == 4 < 5 + 6 / 7",
		"bind t:all -> slice", "def t{} bind t:1->struct bind t:last->slice", "print -\"a\"", "eval 1 = 2", "print (((1)))", "var x = x", "print \"\xff\"", "#c\r\nprint 1\u0085+2"} {
		add([]byte(s))
	}
}

func fuzzOne(data []byte) {
	if len(data) > 1<<14 || bytes.Contains(data, []byte("*")) {
		return
	}
	w := func() []bcl.Option { return []bcl.Option{bcl.OptOutput(io.Discard), bcl.OptLogger(io.Discard)} }
	bcl.Interpret(data, w()...)
	var t smallTarget
	bcl.Unmarshal(data, &t, w()...)
	if p, err := bcl.Parse(data, "n", w()...); err == nil {
		var d bytes.Buffer
		if p.Dump(&d) == nil {
			if q, err := bcl.LoadProg(bytes.NewReader(d.Bytes()), "n", w()...); err == nil {
				bcl.Execute(q, append(w(), bcl.OptTrace(true), bcl.OptStats(true))...)
			}
		}
	}
}

func FuzzC06Interpret(f *testing.F) {
	fuzzSeeds(f, false)
	f.Fuzz(func(t *testing.T, data []byte) { fuzzOne(data) })
}

func FuzzC06ParseFile(f *testing.F) {
	fuzzSeeds(f, true)
	f.Fuzz(func(t *testing.T, data []byte, chunk uint16) {
		if len(data) > 1<<14 || bytes.Contains(data, []byte("*")) {
			return
		}
		n := int(chunk)%4097 + 0
		sc := []readStep{{N: n}, {N: 0}, {N: n}, {N: 1}, {N: n}}
		w := []bcl.Option{bcl.OptOutput(io.Discard), bcl.OptLogger(io.Discard)}
		bcl.InterpretFile(&scriptFile{data: append([]byte{}, data...), script: sc, name: "f", eofData: chunk&0x8000 != 0}, w...)
		var tgt []smallTarget
		bcl.UnmarshalFile(&scriptFile{data: append([]byte{}, data...), script: sc[:2], name: "f"}, &tgt, w...)
	})
}

var fuzzArgRe = regexp.MustCompile(`(?m)^\[\]byte\((.*)\)$`)

// fuzzCrasherInput extracts the byte slice of a "go test fuzz v1" file.
func fuzzCrasherInput(path string) ([]byte, bool) {
	b, err := os.ReadFile(path)
	if err != nil || !bytes.HasPrefix(b, []byte("go test fuzz v1")) {
		return nil, false
	}
	m := fuzzArgRe.FindSubmatch(b)
	if m == nil {
		return nil, false
	}
	s, err := strconv.Unquote(string(m[1]))
	if err != nil {
		return nil, false
	}
	return []byte(s), true
}
