package props

import (
	"bytes"
	"fmt"
	"regexp"
	"strings"
	"testing"
	"time"

	"pgregory.net/rapid"

	"verif/bc"
	"verif/gen"
	"verif/harness"
	"verif/ref"
)

// C20 — layout, comments and redundant parentheses never change meaning.

type caseC20 struct {
	Kind   string        `json:"kind"` // ast | tokens
	Src1   string        `json:"src1"`
	Src2   string        `json:"src2"`
	Strs   []string      `json:"strs,omitempty"` // string literals whose values must reach the pool
	Mut    *gen.Mutation `json:"mutation,omitempty"`
	NoExec bool          `json:"noexec,omitempty"`
	// Script2, if present: rendering 2 is read through ParseFile in these
	// read sizes (layout must not matter for the streaming entry point either)
	Script2 []readStep `json:"script2,omitempty"`
}

// positions are the one thing that legitimately differs between two
// renderings: the 'line L:C' prefix of a diagnostic, and any further
// line:column a message may mention
var lineColRe = regexp.MustCompile(`\b\d+:\d+\b`)

func stripPos(s string) string { return lineColRe.ReplaceAllString(s, "L:C") }

func diagMessages(log string) []string {
	var out []string
	for _, l := range strings.Split(log, "\n") {
		if l != "" {
			out = append(out, stripPos(l))
		}
	}
	return out
}

func checkC20(c caseC20) string {
	p1 := parseWhole(c.Src1, "n")
	p2 := parseWhole(c.Src2, "n")
	if len(c.Script2) > 0 {
		fr := parseFileWatch(&scriptFile{data: []byte(c.Src2), script: c.Script2, name: "n"}, 20*time.Second)
		if fr.timedOut {
			return "ParseFile of rendering 2 did not return"
		}
		p2 = parsed{prog: fr.prog, err: fr.err, log: fr.log, out: fr.out, dump: fr.dump, pan: fr.pan}
	}
	if p1.pan != nil || p2.pan != nil {
		return fmt.Sprintf("Parse panicked: %v / %v", p1.pan, p2.pan)
	}
	if (p1.err == nil) != (p2.err == nil) {
		return fmt.Sprintf("one rendering is accepted, the other rejected: err1=%v log1=%q err2=%v log2=%q", p1.err, p1.log, p2.err, p2.log)
	}
	if p1.err != nil {
		if c.Kind != "tokens" {
			// different token sequences (';' and parentheses were varied):
			// the parser may word its complaints differently
			return ""
		}
		m1, m2 := diagMessages(p1.log), diagMessages(p2.log)
		if strings.Join(m1, "\n") != strings.Join(m2, "\n") {
			return fmt.Sprintf("diagnostics differ (positions ignored):\n--- rendering 1\n%s\n--- rendering 2\n%s", strings.Join(m1, "\n"), strings.Join(m2, "\n"))
		}
		return ""
	}
	f1, err1 := bc.Decode(p1.dump)
	f2, err2 := bc.Decode(p2.dump)
	if err1 != nil || err2 != nil {
		return fmt.Sprintf("independent decoder rejects a dump: %v / %v", err1, err2)
	}
	if !bytes.Equal(f1.Code, f2.Code) {
		return fmt.Sprintf("the two renderings compile to different instructions:\n--- 1\n%s\n--- 2\n%s", listing(f1), listing(f2))
	}
	if len(f1.Consts) != len(f2.Consts) {
		return fmt.Sprintf("constant pools differ in size: %d vs %d", len(f1.Consts), len(f2.Consts))
	}
	for i := range f1.Consts {
		if !eqValue(f1.Consts[i], f2.Consts[i]) {
			return fmt.Sprintf("constant %d differs: %#v vs %#v", i, f1.Consts[i], f2.Consts[i])
		}
	}
	// nothing inside a string literal is layout
	for _, lit := range c.Strs {
		want, ok := gen.Unquote(lit)
		if !ok {
			continue
		}
		found := false
		for _, k := range f1.Consts {
			if s, isStr := k.(string); isStr && s == want {
				found = true
			}
		}
		if !found {
			return fmt.Sprintf("string literal %s: its value %q is not among the constants %.300q", lit, want, fmt.Sprint(f1.Consts))
		}
	}
	if c.NoExec {
		return ""
	}
	var o1, l1, o2, l2 bytes.Buffer
	q1, e1, _ := loadProg(bytes.NewReader(p1.dump), "n", optOut(&o1), optLog(&l1))
	q2, e2, _ := loadProg(bytes.NewReader(p2.dump), "n", optOut(&o2), optLog(&l2))
	if e1 != nil || e2 != nil {
		return fmt.Sprintf("LoadProg of a fresh dump failed: %v / %v", e1, e2)
	}
	a1 := executeWith(q1, &o1, &l1)
	a2 := executeWith(q2, &o2, &l2)
	switch {
	case a1.Panic != nil || a2.Panic != nil:
		return fmt.Sprintf("Execute panicked: %v / %v", a1.Panic, a2.Panic)
	case a1.Out != a2.Out:
		return fmt.Sprintf("output differs: %q vs %q", clip(a1.Out, 300), clip(a2.Out, 300))
	case stripPos(errStr(a1.Err)) != stripPos(errStr(a2.Err)):
		return fmt.Sprintf("error differs: %q vs %q", errStr(a1.Err), errStr(a2.Err))
	case stripPos(a1.Log) != stripPos(a2.Log):
		return fmt.Sprintf("warnings differ: %q vs %q", a1.Log, a2.Log)
	case !eqBlocks(a1.Blocks, a2.Blocks):
		return fmt.Sprintf("blocks differ: %s vs %s", clip(showBlocks(a1.Blocks), 300), clip(showBlocks(a2.Blocks), 300))
	case !eqBinding(a1.Binding, a2.Binding):
		return "binding differs"
	}
	return ""
}

func listing(f *bc.File) string {
	ins, _ := bc.Instrs(f.Code)
	var sb strings.Builder
	for i, in := range ins {
		if i > 60 {
			sb.WriteString("...\n")
			break
		}
		sb.WriteString(in.String())
		sb.WriteByte('\n')
	}
	return sb.String()
}

// layoutStats compares two layouts for the non-trivial rule.
func layoutDiff(a, b gen.Layout) (gapsDiffer int, rich bool) {
	n := len(a.Gaps)
	if len(b.Gaps) < n {
		n = len(b.Gaps)
	}
	for i := 0; i < n; i++ {
		if a.Gaps[i] != b.Gaps[i] {
			gapsDiffer++
		}
	}
	for _, l := range []gen.Layout{a, b} {
		for _, g := range l.Gaps {
			if strings.Contains(g, "#") || strings.ContainsAny(g, "\t\v\f\r\u0085 ") {
				rich = true
			}
		}
	}
	return
}

func TestC20(t *testing.T) {
	rec := harness.Get("C20")
	if path := replayPath(); path != "" {
		var c caseC20
		must(harness.LoadReplay(path, &c))
		if viol := checkC20(c); viol != "" {
			rec.Fail(t, c, "%s", viol)
		}
		return
	}
	rapid.Check(t, func(t *rapid.T) {
		cfg := acceptedCfg(t)
		cfg.PIllegal = 5
		cfg.PBadLit = gen.Pick(t, "pbadlit", []int{0, 0, 3})
		p, _ := gen.GenProg(t, cfg)
		var c caseC20
		var feats []string
		var diff int
		var rich bool
		lo := gen.LayoutOpts{Plain: gen.Pick(t, "plainpct", []int{30, 60, 85}), PHuge: 1}
		if gen.Chance(t, 70, "astkind") {
			c.Kind = "ast"
			if o := ref.Run(p); o.Unspecified != "" {
				c.NoExec = true
			}
			v1, n1 := gen.Vary(t, p, gen.Pick(t, "parpct1", []int{0, 10, 30}))
			v2, n2 := gen.Vary(t, p, gen.Pick(t, "parpct2", []int{0, 10, 30}))
			r1, r2 := gen.RenderProg(v1), gen.RenderProg(v2)
			l1, l2 := gen.GenLayout(t, r1.Toks, lo), gen.GenLayout(t, r2.Toks, lo)
			c.Src1, _ = renderChecked(r1.Toks, l1)
			c.Src2, _ = renderChecked(r2.Toks, l2)
			for _, tk := range r1.Toks {
				if tk.K == gen.KStr {
					c.Strs = append(c.Strs, tk.S)
				}
			}
			diff, rich = layoutDiff(l1, l2)
			if n1+n2 > 0 {
				rich = true
				feats = append(feats, "redundant-parens")
			}
			if len(r1.Toks) != len(r2.Toks) {
				diff += 3
			}
		} else {
			c.Kind = "tokens"
			c.NoExec = true
			toks := gen.RenderProg(p).Toks
			if len(toks) > 0 && gen.Chance(t, 85, "mutate") {
				m := gen.GenMutation(t, toks, 10)
				c.Mut = &m
				toks = m.Apply(toks)
				feats = append(feats, "mutation:"+m.Kind)
			}
			l1, l2 := gen.GenLayout(t, toks, lo), gen.GenLayout(t, toks, lo)
			var pos1, pos2 []gen.TokPos
			c.Src1, pos1 = renderChecked(toks, l1)
			c.Src2, pos2 = renderChecked(toks, l2)
			diff, rich = layoutDiff(l1, l2)
			if len(toks) > 0 && gen.Chance(t, 30, "lexfault") {
				// the same self-contained lexical fault in front of the same token of
				// both renderings: the parse ends there, what was said before it
				// must not depend on the layout
				at := gen.Uniform(t, len(toks), "faultat")
				frag := " " + gen.Pick(t, "faultfrag", []string{"@", "$", "?", "`", "~", "\x00"}) + " "
				c.Src1 = c.Src1[:pos1[at].Start] + frag + c.Src1[pos1[at].Start:]
				c.Src2 = c.Src2[:pos2[at].Start] + frag + c.Src2[pos2[at].Start:]
				feats = append(feats, "lexical-fault-in-both")
			}
		}
		if gen.Chance(t, 30, "viafile") {
			_, c.Script2 = drawScript(t, len(c.Src2))
			feats = append(feats, "rendering2-via-ParseFile")
		}
		feats = append(feats, "kind:"+c.Kind)
		for _, s := range []string{c.Src1, c.Src2} {
			if strings.Contains(s, "#") {
				feats = append(feats, "has-comment")
			}
			if strings.Contains(s, "\r") {
				feats = append(feats, "has-CR")
			}
			if strings.ContainsAny(s, "\u0085 ") {
				feats = append(feats, "has-unicode-space")
			}
		}
		viol := checkC20(c)
		nt := diff >= 3 && rich
		rec.Case(nt, harness.Hash(c.Src1, c.Src2), feats...)
		if nt {
			rec.Sample(func() any {
				return map[string]any{"kind": c.Kind, "src1": clip(c.Src1, 300), "src2": clip(c.Src2, 300)}
			})
		}
		if viol != "" {
			rec.Fail(t, c, "%s\n--- source 1\n%s\n--- source 2\n%s", viol, clip(c.Src1, 500), clip(c.Src2, 500))
		}
	})
}

func TestReplayC20(t *testing.T) { replayOnly(t); TestC20(t) }
