package props

import (
	"fmt"
	"math"
	"reflect"
	"sort"
	"strings"
	"testing"
	"unsafe"

	"pgregory.net/rapid"

	"github.com/wkhere/bcl"

	"verif/gen"
	"verif/harness"
)

// C15 — Bind never panics and never silently drops or coerces data.

// ---- declared family: shapes reflect.StructOf cannot build ----

type Emb struct{ X int }
type embHidden struct{ X int }
type EmbPtr struct{ Y string }

type T15Unexported struct {
	Name string
	a    int
	B    int
}
type T15EmbVal struct {
	Emb
	Y int
}
type T15EmbPtr struct {
	*EmbPtr
	Z int
}
type T15EmbHidden struct {
	embHidden
	Y int
}
type T15EmbHiddenPtr struct {
	*embHidden
	Y int
}
type T15Shadow struct {
	Emb
	X string // shadows Emb.X
}
type T15NameInt struct {
	Name int
	A    int
}
type T15NameLower struct {
	name string
	A    int
}
type T15Iface struct {
	Name string
	A    any
	B    fmt.Stringer
}
type T15Ptrs struct {
	A *int
	S *string
	I *T15Inner
}
type T15Inner struct {
	Name string
	V    int
}
type T15Nested struct {
	Name  string
	Inner T15Inner
	P     *T15Inner `bcl:"pinner"`
	Any   any       `bcl:"ainner"`
}
type T15Kinds struct {
	U8  uint8
	I32 int32
	F32 float32
	M   map[string]int
	L   []int
	Arr [2]int
	Fn  func()
	Ch  chan int
	C   complex128
}
type Int int // a named non-struct type spelled like a block type
type T15NamedNonStruct struct {
	Int Int
	A   int
}
type T15TwoEmb struct {
	Emb
	EmbB
}
type EmbB struct{ X int } // makes X ambiguous at depth 1

// embedding two levels deep, by pointer and by value
type T15Leaf struct{ Q int }
type T15Mid struct {
	*T15Leaf
	M int
}
type T15Deep struct {
	*T15Mid
	A int
}
type T15DeepV struct {
	T15Mid
	A int
}

// two distinct types with the same package path and name (function-local
// declarations) and different layouts
func localConfA() any {
	type Conf struct {
		Primary string `bcl:"addr"`
		Backup  string
		Name    string
	}
	return Conf{}
}
func localConfB() any {
	type Conf struct {
		Backup  string
		Name    string
		X       int
		Primary string `bcl:"addr"`
	}
	return Conf{}
}
func localConfC() any {
	type Conf struct {
		Primary string `bcl:"addr"`
	}
	return Conf{}
}

var family15 = []any{
	localConfA(), localConfB(), localConfC(), T15Deep{}, T15DeepV{}, T15Mid{},
	T15Unexported{}, T15EmbVal{}, T15EmbPtr{}, T15EmbHidden{}, T15EmbHiddenPtr{}, T15Shadow{}, T15NameInt{},
	T15NameLower{}, T15Iface{}, T15Ptrs{}, T15Inner{}, T15Nested{}, T15Kinds{}, T15NamedNonStruct{}, T15TwoEmb{},
}

// ---- the harness's own reading of the mapping rule ----

func foldEq(goName, key string) bool {
	return strings.EqualFold(goName, strings.ReplaceAll(key, "_", ""))
}

// findField: tag equality first (direct fields only), else folding on the key
// cut at the first '.', with Go's rules for promoted fields (reflect itself).
func findField(T reflect.Type, key string) (reflect.StructField, bool) {
	for i := 0; i < T.NumField(); i++ {
		f := T.Field(i)
		if tg := f.Tag.Get("bcl"); tg != "" && tg == key {
			return f, true
		}
	}
	k, _, _ := strings.Cut(key, ".")
	return T.FieldByNameFunc(func(n string) bool { return foldEq(n, k) })
}

// mustFail statically decides whether binding block into a struct of type T
// has to be an error, and why. addressable tells the value can be set.
func mustFail(T reflect.Type, v reflect.Value, b bcl.Block) string {
	if n := T.Name(); n != "" && !foldEq(n, b.Type) {
		return fmt.Sprintf("struct type %s does not match block type %s", n, b.Type)
	}
	check := func(key string, val any, isName bool) string {
		f, ok := findField(T, key)
		if !ok {
			if isName && b.Name == "" {
				return ""
			}
			return fmt.Sprintf("no counterpart for %q", key)
		}
		if !f.IsExported() {
			return fmt.Sprintf("counterpart %s of %q is unexported", f.Name, key)
		}
		// a nil embedded pointer on the way
		if v.IsValid() {
			if _, err := v.FieldByIndexErr(f.Index); err != nil {
				return "nil embedded pointer on the path to " + f.Name
			}
		}
		if val == nil {
			return fmt.Sprintf("nil value for %q", key)
		}
		if blk, isBlk := val.(bcl.Block); isBlk {
			if f.Type.Kind() != reflect.Struct {
				return fmt.Sprintf("nested block %q into non-struct %s", key, f.Type)
			}
			var sub reflect.Value
			if v.IsValid() {
				sub, _ = v.FieldByIndexErr(f.Index)
			}
			return mustFail(f.Type, sub, blk)
		}
		if !reflect.TypeOf(val).AssignableTo(f.Type) {
			return fmt.Sprintf("%T for %q is not assignable to %s", val, key, f.Type)
		}
		return ""
	}
	if r := check("Name", b.Name, true); r != "" {
		return r
	}
	for _, k := range sortedKeys(b.Fields) {
		if r := check(k, b.Fields[k], false); r != "" {
			return r
		}
	}
	return ""
}

// sameStored tells whether the struct field holds val unchanged.
func sameStored(fv reflect.Value, val any) bool {
	if !fv.IsValid() || !fv.CanInterface() {
		return false
	}
	got := fv.Interface()
	if reflect.TypeOf(got) != reflect.TypeOf(val) {
		return false
	}
	if f, ok := val.(float64); ok {
		return math.Float64bits(f) == math.Float64bits(got.(float64))
	}
	return got == val
}

// verifyStored checks, after a nil return, that everything of the block is in
// the struct.
func verifyStored(v reflect.Value, b bcl.Block) string {
	T := v.Type()
	if b.Name != "" {
		f, ok := findField(T, "Name")
		if !ok || !f.IsExported() {
			return fmt.Sprintf("nil returned, but the block name %q has no exported counterpart", b.Name)
		}
		fv, err := v.FieldByIndexErr(f.Index)
		held := err == nil && sameStored(fv, b.Name)
		// a key of the block may map to the very same field (a field spelled
		// "Name"): like colliding keys, holding either value counts
		for _, k := range sortedKeys(b.Fields) {
			if kf, ok := findField(T, k); ok && fmt.Sprint(kf.Index) == fmt.Sprint(f.Index) && err == nil && sameStored(fv, b.Fields[k]) {
				held = true
			}
		}
		if !held {
			return fmt.Sprintf("nil returned, but the block name %q is not in field %s", b.Name, f.Name)
		}
	}
	// keys grouped by the field they map to
	byField := map[string][]string{}
	for _, k := range sortedKeys(b.Fields) {
		f, ok := findField(T, k)
		if !ok {
			return fmt.Sprintf("nil returned, but %q has no counterpart (silently dropped)", k)
		}
		if !f.IsExported() {
			return fmt.Sprintf("nil returned, but the counterpart %s of %q is unexported", f.Name, k)
		}
		byField[fmt.Sprint(f.Index)] = append(byField[fmt.Sprint(f.Index)], k)
	}
	for _, keys := range byField {
		f, _ := findField(T, keys[0])
		fv, err := v.FieldByIndexErr(f.Index)
		if err != nil {
			return fmt.Sprintf("nil returned, but field %s is behind a nil pointer", f.Name)
		}
		okAny := false
		for _, k := range keys {
			val := b.Fields[k]
			if val == nil {
				return fmt.Sprintf("nil returned, but %q is nil", k)
			}
			if blk, isBlk := val.(bcl.Block); isBlk {
				if fv.Kind() != reflect.Struct {
					return fmt.Sprintf("nil returned, but nested block %q went into non-struct %s", k, fv.Type())
				}
				if r := verifyStored(fv, blk); r == "" {
					okAny = true
				} else if len(keys) == 1 {
					return r
				}
				continue
			}
			if sameStored(fv, val) {
				okAny = true
			}
		}
		if !okAny {
			return fmt.Sprintf("nil returned, but field %s = %#v holds none of the values of %v (%v): dropped or coerced",
				f.Name, safeIface(fv), keys, valuesOf(b, keys))
		}
	}
	return ""
}

func safeIface(v reflect.Value) any {
	if v.IsValid() && v.CanInterface() {
		return v.Interface()
	}
	return "<unreadable>"
}

func valuesOf(b bcl.Block, keys []string) []any {
	var out []any
	for _, k := range keys {
		out = append(out, b.Fields[k])
	}
	return out
}

// ---- generators ----

var keyPool = []string{"Name", "name", "_", "__", "q", "m", "a", "b_c", "port", "Host", "max_size", "x", "y", "v", "int", "inner", "pinner", "ainner", "z_z", "u8", "i32", "f32", "m", "l", "arr", "fn", "ch", "c", "s", "i"}

func genValue15(t *rapid.T, depth int) any {
	switch gen.Weighted(t, "valkind", 30, 15, 20, 12, 8, 15) {
	case 0:
		return gen.Int(t, -3, 1000, "iv")
	case 1:
		return gen.Pick(t, "fv", []float64{0, 1.5, -2, math.Inf(1), 1e300})
	case 2:
		return gen.Pick(t, "sv", []string{"", "s", "héllo", "1"})
	case 3:
		return gen.Bool(t, "bv")
	case 4:
		return nil
	}
	if depth >= 2 {
		return 7
	}
	return genBlock15(t, depth+1)
}

func genBlock15(t *rapid.T, depth int) bcl.Block {
	b := bcl.Block{Type: gen.Pick(t, "btype", []string{"t", "inner", "my_blk", "int", "t15_inner", "emb"}),
		Name: gen.Pick(t, "bname", []string{"", "", "n", "x y"}), Fields: map[string]any{}}
	if gen.Chance(t, 3, "nilmap") {
		b.Fields = nil
		return b
	}
	n := gen.Int(t, 0, 5, "nkeys")
	for i := 0; i < n; i++ {
		k := gen.Pick(t, "key", keyPool)
		if gen.Chance(t, 12, "collide") && len(b.Fields) > 0 {
			// a second spelling of a key already present
			k0 := sortedKeys(b.Fields)[0]
			k = gen.Pick(t, "colspell", []string{strings.ToUpper(k0), k0 + "_", "_" + k0, strings.ReplaceAll(k0, "_", "")})
		}
		v := genValue15(t, depth)
		if blk, ok := v.(bcl.Block); ok {
			k = blk.Type
			if blk.Name != "" {
				k += "." + blk.Name
			}
		}
		b.Fields[k] = v
	}
	return b
}

func exportName(key string) string {
	k, _, _ := strings.Cut(key, ".")
	k = strings.ReplaceAll(k, "_", "")
	if k == "" {
		return ""
	}
	return strings.ToUpper(k[:1]) + strings.ToLower(k[1:])
}

var oddTypes = []reflect.Type{
	reflect.TypeOf(uint8(0)), reflect.TypeOf(int32(0)), reflect.TypeOf(float32(0)), reflect.TypeOf(new(int)),
	reflect.TypeOf([]int{}), reflect.TypeOf(map[string]int{}), reflect.TypeOf([2]int{}), reflect.TypeOf(func() {}),
	reflect.TypeOf(make(chan int)), reflect.TypeOf(complex128(0)), reflect.TypeOf((*any)(nil)).Elem(),
	reflect.TypeOf(new(T15Inner)), reflect.TypeOf(Int(0)), reflect.TypeOf((*fmt.Stringer)(nil)).Elem(),
	reflect.TypeOf(uintptr(0)), reflect.TypeOf(unsafe.Pointer(nil)), reflect.TypeOf(int(0)), reflect.TypeOf(""),
	reflect.TypeOf(float64(0)), reflect.TypeOf(false),
}

// typeFor builds a struct type that fits the block, then perturbs it in at
// most one place.
func typeFor(t *rapid.T, b bcl.Block, perturb bool) reflect.Type {
	var fs []reflect.StructField
	seen := map[string]bool{"Name": true}
	for _, k := range sortedKeys(b.Fields) {
		n := exportName(k)
		if n == "" || seen[n] || n[0] < 'A' || n[0] > 'Z' {
			continue
		}
		seen[n] = true
		var ft reflect.Type
		switch v := b.Fields[k].(type) {
		case nil:
			ft = reflect.TypeOf((*any)(nil)).Elem()
		case bcl.Block:
			ft = typeFor(t, v, false)
		default:
			ft = reflect.TypeOf(v)
		}
		fs = append(fs, reflect.StructField{Name: n, Type: ft})
	}
	if b.Name != "" || gen.Bool(t, "namefield") {
		fs = append(fs, reflect.StructField{Name: "Name", Type: reflect.TypeOf("")})
	}
	if perturb && len(fs) > 0 {
		i := gen.Uniform(t, len(fs), "perturbat")
		switch gen.Weighted(t, "perturb", 55, 25, 10, 10) {
		case 0:
			fs[i].Type = gen.Pick(t, "oddtype", oddTypes)
		case 1:
			fs = append(fs[:i], fs[i+1:]...)
		case 2:
			fs[i].Tag = `bcl:"othertag"`
		default:
			fs[i].Name, fs[i].PkgPath = strings.ToLower(fs[i].Name[:1])+fs[i].Name[1:], "verif/props"
		}
	}
	return reflect.StructOf(fs)
}

// blockFor builds a block that fits a declared type, then perturbs it.
func blockFor(t *rapid.T, T reflect.Type, perturb bool, depth int) bcl.Block {
	b := bcl.Block{Type: strings.ToLower(T.Name()), Fields: map[string]any{}}
	if T.Name() == "" {
		b.Type = "t"
	}
	var add func(T reflect.Type)
	add = func(T reflect.Type) {
		for i := 0; i < T.NumField(); i++ {
			f := T.Field(i)
			if f.Anonymous {
				ft := f.Type
				if ft.Kind() == reflect.Pointer {
					ft = ft.Elem()
				}
				if ft.Kind() == reflect.Struct && gen.Chance(t, 70, "promoted") {
					add(ft)
				}
				continue
			}
			if f.Name == "Name" {
				if f.Type.Kind() == reflect.String && gen.Bool(t, "hasname") {
					b.Name = "nm"
				}
				continue
			}
			key := f.Tag.Get("bcl")
			if key == "" {
				key = strings.ToLower(f.Name)
			}
			switch f.Type.Kind() {
			case reflect.Int:
				if f.Type == reflect.TypeOf(int(0)) {
					b.Fields[key] = gen.Int(t, 0, 9, "fi")
				} else if gen.Bool(t, "namedint") {
					b.Fields[key] = gen.Int(t, 0, 9, "fi")
				}
			case reflect.String:
				b.Fields[key] = "s"
			case reflect.Float64:
				b.Fields[key] = 2.5
			case reflect.Bool:
				b.Fields[key] = true
			case reflect.Interface:
				if f.Type.NumMethod() == 0 {
					b.Fields[key] = genValue15(t, 2)
				}
			case reflect.Struct:
				if depth < 2 {
					sub := blockFor(t, f.Type, false, depth+1)
					sub.Type = strings.ToLower(f.Type.Name())
					k := sub.Type
					if tg := f.Tag.Get("bcl"); tg != "" {
						k = tg
					}
					b.Fields[k] = sub
				}
			default:
				if gen.Chance(t, 40, "oddfield") {
					b.Fields[key] = genValue15(t, 2)
				}
			}
		}
	}
	add(T)
	if perturb {
		switch gen.Weighted(t, "bperturb", 25, 20, 20, 20, 15) {
		case 0:
			b.Fields[gen.Pick(t, "extrakey", keyPool)] = genValue15(t, 1)
		case 1:
			if ks := sortedKeys(b.Fields); len(ks) > 0 {
				b.Fields[gen.Pick(t, "nilkey", ks)] = nil
			}
		case 2:
			if ks := sortedKeys(b.Fields); len(ks) > 0 {
				b.Fields[gen.Pick(t, "retype", ks)] = genValue15(t, 1)
			}
		case 3:
			b.Type = gen.Pick(t, "othertype", []string{"zzz", "int", b.Type + "_", "_" + b.Type})
		default:
			b.Name = "forced"
		}
	}
	return b
}

// fillJunk sets recognisable non-zero values into the plain fields of v.
func fillJunk(v reflect.Value, n int) {
	switch v.Kind() {
	case reflect.Struct:
		for i := 0; i < v.NumField(); i++ {
			if v.Field(i).CanSet() {
				fillJunk(v.Field(i), n)
			}
		}
	case reflect.Int, reflect.Int32, reflect.Int64:
		v.SetInt(int64(700 + n))
	case reflect.String:
		v.SetString(fmt.Sprintf("junk%d", n))
	case reflect.Float64, reflect.Float32:
		v.SetFloat(7.5)
	case reflect.Bool:
		v.SetBool(true)
	}
}

func describe15(target any, binding bcl.Binding) string {
	tt := "<nil>"
	if target != nil {
		tt = reflect.TypeOf(target).String()
	}
	return fmt.Sprintf("target type %s\nbinding %#v", clip(tt, 600), binding)
}

type caseC15 struct {
	Desc string `json:"desc"`
}

func TestC15(t *testing.T) {
	rec := harness.Get("C15")
	if replayPath() != "" {
		t.Skip("C15 replays need the generated type: re-run with the shard's seed; the replay file describes the pair")
	}
	rapid.Check(t, func(t *rapid.T) {
		var target any
		var binding bcl.Binding
		var feats []string
		class := gen.Weighted(t, "class", 12, 44, 44)
		wantErr := ""               // reason the harness knows the pair must fail
		var structVal reflect.Value // the struct (or slice) under the pointer, for verification
		blocks := []bcl.Block{}
		slice := gen.Chance(t, 40, "slicebinding")
		perturbed := gen.Chance(t, 50, "perturb")
		mk := func(T reflect.Type, bs []bcl.Block) {
			blocks = bs
			if slice {
				binding = bcl.SliceBinding{Value: bs}
				sl := reflect.MakeSlice(reflect.SliceOf(T), gen.Int(t, 0, 5, "njunk"), 6)
				for i := 0; i < sl.Len(); i++ {
					fillJunk(sl.Index(i), i)
				}
				p := reflect.New(reflect.SliceOf(T))
				p.Elem().Set(sl)
				target, structVal = p.Interface(), p.Elem()
			} else {
				binding = bcl.StructBinding{Value: bs[0]}
				p := reflect.New(T)
				target, structVal = p.Interface(), p.Elem()
			}
		}
		switch class {
		case 0: // targets and bindings of the wrong nature altogether
			b := genBlock15(t, 0)
			binding = gen.Pick(t, "oddbinding", []bcl.Binding{nil, bcl.StructBinding{Value: b}, bcl.SliceBinding{Value: []bcl.Block{b}},
				bcl.SliceBinding{}, (*bcl.StructBinding)(nil), &bcl.StructBinding{Value: b}, &bcl.SliceBinding{}})
			x := 5
			px := &x
			var nilT *T15Inner
			inner := T15Inner{}
			pinner := &inner
			target = gen.Pick(t, "oddtarget", []any{nil, 5, "s", inner, nilT, &pinner, &px, new(bool), new(int8), new(uint16), new(float32),
				new(complex128), new([3]int), new(chan int), new(func()), new(any), new(map[string]int), new(*int), new([]int),
				new([]*T15Inner), new([][]T15Inner), new(string), new(unsafe.Pointer), new(Int), new([]Int), new([]any),
				&[]T15Inner{{Name: "keep", V: 1}}, new(T15Inner), []T15Inner{}, map[string]any{}})
			feats = append(feats, "class:odd-nature")
		case 1: // a struct type derived from the block
			n := 1
			if slice {
				n = gen.Int(t, 0, 4, "nblocks")
			}
			b0 := genBlock15(t, 0)
			T := typeFor(t, b0, perturbed)
			bs := []bcl.Block{}
			for i := 0; i < n; i++ {
				bi := bcl.Block{Type: b0.Type, Name: b0.Name, Fields: map[string]any{}}
				for k, v := range b0.Fields {
					bi.Fields[k] = v
				}
				// later blocks of a slice may carry the fault instead of the type
				if i > 0 && gen.Chance(t, 30, "laterfault") {
					if ks := sortedKeys(bi.Fields); len(ks) > 0 {
						bi.Fields[gen.Pick(t, "faultkey", ks)] = gen.Pick(t, "faultval", []any{nil, "wrong", 1.25, true, 3, bcl.Block{Type: "q"}})
					}
				}
				bs = append(bs, bi)
			}
			if !slice {
				bs = []bcl.Block{b0}
			}
			mk(T, bs)
			feats = append(feats, "class:type-from-block")
		default: // a block derived from a declared type
			T := reflect.TypeOf(gen.Pick(t, "familytype", family15))
			n := 1
			if slice {
				n = gen.Int(t, 0, 4, "nblocks")
			}
			bs := []bcl.Block{}
			for i := 0; i < n; i++ {
				bs = append(bs, blockFor(t, T, perturbed && gen.Chance(t, 60, "thisone"), 0))
			}
			mk(T, bs)
			// pointer-embedded structs: allocate sometimes
			if structVal.Kind() == reflect.Struct && gen.Bool(t, "allocemb") {
				for i := 0; i < structVal.NumField(); i++ {
					f := structVal.Type().Field(i)
					if f.Anonymous && f.Type.Kind() == reflect.Pointer && structVal.Field(i).CanSet() {
						structVal.Field(i).Set(reflect.New(f.Type.Elem()))
					}
				}
			}
			feats = append(feats, "class:block-from-type", "family:"+T.Name())
		}
		// what the harness knows must fail
		if structVal.IsValid() {
			for i, b := range blocks {
				var sv reflect.Value
				if structVal.Kind() == reflect.Struct {
					sv = structVal
				}
				if r := mustFail(elemType(structVal), sv, b); r != "" {
					wantErr = fmt.Sprintf("block %d: %s", i, r)
					break
				}
			}
		}
		// snapshot of a slice target
		var before reflect.Value
		if structVal.IsValid() && structVal.Kind() == reflect.Slice {
			before = reflect.MakeSlice(structVal.Type(), structVal.Len(), structVal.Len())
			reflect.Copy(before, structVal)
		}
		desc := describe15(target, binding)
		var err error
		var pan any
		func() {
			defer func() { pan = recover() }()
			err = bcl.Bind(target, binding)
		}()
		outcome := "nil"
		if err != nil {
			outcome = "error"
		}
		feats = append(feats, "outcome:"+outcome)
		if wantErr != "" {
			feats = append(feats, "expected:error")
		}
		interesting := class != 0 && (perturbed || hasOddShape(structVal) || blocksHaveNilOrNested(blocks))
		rec.Case(interesting, harness.Hash(desc), feats...)
		if interesting {
			rec.Sample(func() any {
				return map[string]any{"pair": clip(desc, 500), "outcome": outcome, "must_fail_because": wantErr}
			})
		}
		c := caseC15{Desc: desc}
		switch {
		case pan != nil:
			rec.Fail(t, c, "Bind panicked: %v\n%s", pan, desc)
		case class == 0:
			// wrong nature: everything except the two sane pairs must be an error
			if err == nil {
				ok := false
				if p, isP := target.(*T15Inner); isP && p != nil {
					if sb, isSB := binding.(bcl.StructBinding); isSB && mustFail(reflect.TypeOf(T15Inner{}), reflect.ValueOf(p).Elem(), sb.Value) == "" {
						ok = verifyStored(reflect.ValueOf(p).Elem(), sb.Value) == ""
					}
				}
				if p, isP := target.(*[]T15Inner); isP {
					if sb, isSB := binding.(bcl.SliceBinding); isSB {
						ok = len(*p) == len(sb.Value)
						for i, b := range sb.Value {
							if ok && verifyStored(reflect.ValueOf(p).Elem().Index(i), b) != "" {
								ok = false
							}
						}
					}
				}
				if !ok {
					rec.Fail(t, c, "Bind returned nil for a pair that cannot be bound\n%s", desc)
				}
			}
		case err == nil && wantErr != "":
			rec.Fail(t, c, "Bind returned nil although %s\n%s", wantErr, desc)
		case err == nil:
			if structVal.Kind() == reflect.Slice {
				if structVal.Len() != len(blocks) {
					rec.Fail(t, c, "Bind returned nil, slice has %d elements for %d blocks\n%s", structVal.Len(), len(blocks), desc)
				}
				for i, b := range blocks {
					if r := verifyStored(structVal.Index(i), b); r != "" {
						rec.Fail(t, c, "element %d: %s\n%s", i, r, desc)
					}
				}
			} else if r := verifyStored(structVal, blocks[0]); r != "" {
				rec.Fail(t, c, "%s\n%s", r, desc)
			}
		case err != nil && before.IsValid():
			if !reflect.DeepEqual(before.Interface(), structVal.Interface()) {
				rec.Fail(t, c, "Bind failed (%v) but the slice target changed:\nbefore %+v\nafter  %+v\n%s", err, before.Interface(), structVal.Interface(), desc)
			}
		}
	})
}

func elemType(v reflect.Value) reflect.Type {
	if v.Kind() == reflect.Slice {
		return v.Type().Elem()
	}
	return v.Type()
}

func hasOddShape(v reflect.Value) bool {
	if !v.IsValid() {
		return false
	}
	T := elemType(v)
	if T.Kind() != reflect.Struct {
		return true
	}
	for i := 0; i < T.NumField(); i++ {
		f := T.Field(i)
		if f.Anonymous || !f.IsExported() {
			return true
		}
		switch f.Type.Kind() {
		case reflect.Int, reflect.Float64, reflect.String, reflect.Bool, reflect.Struct:
		default:
			return true
		}
	}
	return false
}

func blocksHaveNilOrNested(bs []bcl.Block) bool {
	for _, b := range bs {
		for _, v := range b.Fields {
			if v == nil {
				return true
			}
			if _, ok := v.(bcl.Block); ok {
				return true
			}
		}
	}
	return false
}

func TestReplayC15(t *testing.T) { replayOnly(t); TestC15(t) }

var _ = sort.Strings
