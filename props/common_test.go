package props

import (
	"bytes"
	"fmt"
	"math"
	"os"
	"reflect"
	"regexp"
	"sort"
	"strings"
	"testing"
	"time"

	"github.com/wkhere/bcl"

	"verif/gen"
	"verif/harness"
	"verif/ref"
)

func TestMain(m *testing.M) {
	code := m.Run()
	harness.Flush()
	os.Exit(code)
}

// tier tells whether the thorough tier was asked for.
func thorough() bool { return os.Getenv("VERIF_TIER") == "thorough" }

// actual is what one call of the implementation produced.
type actual struct {
	Blocks  []bcl.Block
	Binding bcl.Binding
	Err     error
	Out     string
	Log     string
	Panic   any
}

func interpret(src string, opts ...bcl.Option) (a actual) {
	var out, log bytes.Buffer
	defer func() {
		if r := recover(); r != nil {
			a.Panic = r
		}
		a.Out, a.Log = out.String(), log.String()
	}()
	o := append([]bcl.Option{bcl.OptOutput(&out), bcl.OptLogger(&log)}, opts...)
	a.Blocks, a.Binding, a.Err = bcl.Interpret([]byte(src), o...)
	return
}

func execute(p *bcl.Prog, out, log *bytes.Buffer, opts ...bcl.Option) (a actual) {
	defer func() {
		if r := recover(); r != nil {
			a.Panic = r
		}
		a.Out, a.Log = out.String(), log.String()
	}()
	a.Blocks, a.Binding, a.Err = bcl.Execute(p, opts...)
	return
}

// calibrateLimits asks the build under test how many blocks may be open at
// once (an implementation limit no property fixes) and tells the reference
// models. If nesting to 200 levels is accepted the models take that as
// their limit, which the generators never reach.
func calibrateLimits() {
	limit := 200
	for k := 1; k <= 200; k++ {
		src := strings.Repeat("def b {\n", k) + "x = 1\n" + strings.Repeat("}\n", k)
		a := interpret(src)
		if a.Panic != nil {
			return // the checks proper will report it
		}
		if a.Err != nil {
			limit = k - 1
			break
		}
	}
	if limit >= 1 {
		ref.MaxBlockDepth = limit
	}
}

func init() {
	// not in the worker process of C06, and not in a process that runs C12:
	// its cold-start scenario needs the first calls into the library of the
	// process to be the concurrent ones
	if os.Getenv("VERIF_WORKER") != "" {
		return
	}
	for _, a := range os.Args {
		if strings.Contains(a, "TestC12") || strings.Contains(a, "TestReplayC12") {
			return
		}
	}
	calibrateLimits()
}

// eqValue compares two field values: same dynamic type, floats by bit
// pattern, blocks recursively.
func eqValue(a, b any) bool {
	switch x := a.(type) {
	case float64:
		y, ok := b.(float64)
		if ok && x != x && y != y {
			// sign and payload of a NaN are not a language-level value (they
			// depend on which machine instruction produced it)
			return true
		}
		return ok && math.Float64bits(x) == math.Float64bits(y)
	case bcl.Block:
		y, ok := b.(bcl.Block)
		return ok && eqBlock(x, y)
	case nil:
		return b == nil
	}
	if reflect.TypeOf(a) != reflect.TypeOf(b) {
		return false
	}
	return a == b
}

func eqBlock(a, b bcl.Block) bool {
	if a.Type != b.Type || a.Name != b.Name || len(a.Fields) != len(b.Fields) {
		return false
	}
	for k, v := range a.Fields {
		w, ok := b.Fields[k]
		if !ok || !eqValue(v, w) {
			return false
		}
	}
	return true
}

func eqBlocks(a, b []bcl.Block) bool {
	if len(a) != len(b) {
		return false
	}
	for i := range a {
		if !eqBlock(a[i], b[i]) {
			return false
		}
	}
	return true
}

func eqBinding(a, b bcl.Binding) bool {
	switch x := a.(type) {
	case nil:
		return b == nil
	case bcl.StructBinding:
		y, ok := b.(bcl.StructBinding)
		return ok && eqBlock(x.Value, y.Value)
	case bcl.SliceBinding:
		y, ok := b.(bcl.SliceBinding)
		return ok && eqBlocks(x.Value, y.Value)
	}
	return false
}

func showBlocks(bs []bcl.Block) string { return fmt.Sprintf("%#v", bs) }

func isRuntimeErr(err error) bool {
	return err != nil && strings.HasPrefix(err.Error(), "runtime error: ")
}

// compareOutcome checks an actual run against R1's prediction. It returns
// "" when they agree, else a description of the disagreement.
func compareOutcome(o *ref.Outcome, a actual) string {
	if a.Panic != nil {
		return fmt.Sprintf("panic: %v", a.Panic)
	}
	if o.Compile != nil {
		if a.Err == nil {
			return fmt.Sprintf("expected a compile error (%s), call succeeded", o.Compile.Class)
		}
		if isRuntimeErr(a.Err) {
			return fmt.Sprintf("expected a compile error (%s), got runtime error %q", o.Compile.Class, a.Err)
		}
		if len(a.Blocks) != 0 || a.Binding != nil {
			return "compile error but results returned"
		}
		if a.Out != "" {
			return fmt.Sprintf("compile error but output written: %q", a.Out)
		}
		if !strings.Contains(a.Log, ": error") {
			return fmt.Sprintf("compile error without a diagnostic; log=%q", a.Log)
		}
		return ""
	}
	if a.Err != nil && !isRuntimeErr(a.Err) {
		return fmt.Sprintf("unexpected compile failure: %v; log=%q", a.Err, a.Log)
	}
	if want := o.Output(); a.Out != want {
		return fmt.Sprintf("printed output differs:\n got: %q\nwant: %q", a.Out, want)
	}
	if o.RT != nil {
		if a.Err == nil {
			return fmt.Sprintf("expected runtime error (%s %v), call succeeded", o.RT.Class, o.RT.Contains)
		}
		for _, c := range o.RT.Contains {
			if !strings.Contains(a.Err.Error(), c) {
				return fmt.Sprintf("runtime error %q does not mention %q (class %s)", a.Err, c, o.RT.Class)
			}
		}
	} else if a.Err != nil {
		return fmt.Sprintf("unexpected runtime error: %v", a.Err)
	}
	if !eqBlocks(o.Blocks, a.Blocks) {
		return fmt.Sprintf("blocks differ:\n got: %s\nwant: %s", showBlocks(a.Blocks), showBlocks(o.Blocks))
	}
	if o.RT == nil {
		if !eqBinding(o.Binding, a.Binding) {
			return fmt.Sprintf("binding differs:\n got: %#v\nwant: %#v", a.Binding, o.Binding)
		}
	}
	if n := strings.Count(a.Log, "WARNING:"); n != len(o.Warnings) {
		return fmt.Sprintf("%d warnings on the log, expected %d; log=%q", n, len(o.Warnings), a.Log)
	}
	if o.RT == nil && len(o.Warnings) == 0 && a.Log != "" {
		return fmt.Sprintf("unexpected log text: %q", a.Log)
	}
	return ""
}

// must panics with a harness error (never a violation).
func must(err error) {
	if err != nil {
		panic("HARNESS-ERROR: " + err.Error())
	}
}

// renderChecked renders tokens under a layout and runs the generator's
// self-check.
func renderChecked(toks []gen.Tok, lay gen.Layout) (string, []gen.TokPos) {
	src, pos := gen.Render(toks, lay)
	must(gen.SelfCheck(src, toks))
	return src, pos
}

var diagRe = regexp.MustCompile(`^line (\d+):(\d+): error(?: at '(.*)'| at end)?: (.+)$`)

func sortedKeys[V any](m map[string]V) []string {
	ks := make([]string, 0, len(m))
	for k := range m {
		ks = append(ks, k)
	}
	sort.Strings(ks)
	return ks
}

func featList(m map[string]int, prefix string) []string {
	var out []string
	for _, k := range sortedKeys(m) {
		if m[k] > 0 {
			out = append(out, prefix+k)
		}
	}
	return out
}

func clip(s string, n int) string {
	if len(s) <= n {
		return s
	}
	return s[:n] + fmt.Sprintf("...(%d bytes)", len(s))
}

func replayOnly(t *testing.T) {
	if os.Getenv("VERIF_REPLAY") == "" {
		t.Skip("no VERIF_REPLAY")
	}
}

func replayPath() string { return os.Getenv("VERIF_REPLAY") }

// firstShard is true in the shard that runs the once-per-check parts
// (enumerations, corpus replay).
func firstShard() bool {
	s := os.Getenv("VERIF_SHARD_INDEX")
	return s == "" || s == "0"
}

func optOut(b *bytes.Buffer) bcl.Option { return bcl.OptOutput(b) }
func optLog(b *bytes.Buffer) bcl.Option { return bcl.OptLogger(b) }

func mustRead(path string) string {
	b, err := os.ReadFile(path)
	must(err)
	return string(b)
}

const timeout20 = 20 * time.Second
