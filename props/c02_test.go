package props

import (
	"fmt"
	"testing"

	"pgregory.net/rapid"

	"verif/gen"
	"verif/harness"
	"verif/ref"
)

// C02 — lexical scoping and state flow of variables versus fields.

func cfgC02(t *rapid.T) gen.ProgCfg {
	cfg := gen.DefaultCfg()
	cfg.MaxTop = 10
	cfg.MaxBody = 7
	cfg.MaxDepth = gen.Pick(t, "maxdepth", []int{2, 3, 4, 6})
	cfg.ExprDepth = 3
	cfg.PWild = 5
	cfg.PIllegal = 15
	cfg.PUnknown = 10
	cfg.PrintState = true
	cfg.PEmbedAsg = 25
	cfg.PDupChild = 0
	cfg.BNames = []string{"", `"a"`, `"b"`, `"c"`, `"d"`, `"e"`, `"f"`}
	if gen.Chance(t, 25, "overlap") {
		// block types that are also variable/field names (an unnamed child is
		// stored under its type, where an assignment may overwrite it), and
		// TYPE/NAME as ordinary variable names
		cfg.Types = []string{"s", "a", "b"}
		cfg.Names = []string{"a", "b", "c", "d", gen.Pick(t, "pseudo", []string{"TYPE", "NAME", "e"})}
	}
	return cfg
}

func genC02(t *rapid.T) caseProg {
	return genCaseProg(t, cfgC02(t), gen.LayoutOpts{Plain: 95})
}

func nontrivialC02(c caseProg, o *ref.Outcome, sh *progShape) bool {
	return c.Feat["shadow"] > 0 || sh.varAndField || sh.embeddedAsg || c.Feat["illegal"] > 0 ||
		c.Feat["unknownread"] > 0 || sh.localsAfter
}

func TestC02(t *testing.T)       { runProgProperty(t, "C02", genC02, nontrivialC02, nil) }
func TestReplayC02(t *testing.T) { replayOnly(t); TestC02(t) }

// TestC02Sweeps enumerates the operand-value sub-space against R1: for every
// k in 0..300 and every statement shape of gen.OperandSweepProg, the program
// whose variables sit in slot k and whose names and literals have constant
// index k (so that an operand byte takes every value, also the values of
// opcodes and the values around the one-/two-byte operand boundary).
func TestC02Sweeps(t *testing.T) {
	if !firstShard() || replayPath() != "" {
		t.Skip("runs in the first shard only")
	}
	rec := harness.Get("C02")
	rec.SetScope("sweeps")
	n := 0
	for k := 0; k <= 300; k++ {
		for kind := 0; kind < gen.OperandSweepKinds; kind++ {
			p := gen.OperandSweepProg(k, kind)
			r := gen.RenderProg(p)
			lay := gen.PlainLayout(r.Toks)
			src, _ := renderChecked(r.Toks, lay)
			n++
			if viol := compareOutcome(ref.Run(p), interpret(src)); viol != "" {
				rec.Fail(t, caseProg{Prog: p, Layout: lay, Src: src}, "operand sweep k=%d kind=%d: %s\nsource:\n%s", k, kind, viol, clip(src, 600))
			}
		}
	}
	rec.Count("sweep:operand-value-programs", n)
	rec.SetExtra("exhaustive_subspace", "operand values 0..300 x 10 statement shapes in last position of a scope (gen.OperandSweepProg), each compared with R1")
}

// TestC02Mutants extends the domain beyond what the tree generator writes:
// the token list of a generated program gets 1..3 token-level edits; if the
// recogniser R2 still accepts it, the tree R2 assigns to it is evaluated by
// R1 and compared with the implementation like any other program. This
// reaches juxtapositions no generator rule produces (a bare expression
// continued by the next line, an assignment that now targets another name,
// a block that now ends earlier).
func TestC02Mutants(t *testing.T) {
	rec := harness.Get("C02")
	rec.SetScope("mutants")
	if replayPath() != "" {
		t.Skip("replayed through TestC02")
	}
	rapid.Check(t, func(t *rapid.T) {
		cfg := cfgC02(t)
		cfg.PIllegal, cfg.PUnknown = 0, 0
		cfg.Binds = true
		p0, _ := gen.GenProg(t, cfg)
		toks := gen.RenderProg(p0).Toks
		if len(toks) == 0 {
			return
		}
		n := 1 + gen.Weighted(t, "nmut", 60, 25, 15)
		for i := 0; i < n && len(toks) > 0; i++ {
			toks = gen.GenMutation(t, toks, 5).Apply(toks)
		}
		p, v := ref.ParseTokens(toks)
		if !v.Accept || v.Unspecified != "" {
			rec.Case(false, harness.Hash("rej"), "mutants:not-a-sentence")
			return
		}
		lay := gen.GenLayout(t, toks, gen.LayoutOpts{Plain: 90})
		src, _ := renderChecked(toks, lay)
		c := caseProg{Prog: p, Layout: lay, Src: src}
		// the tree must render back to the same tokens (self-check of R2's tree)
		if back := gen.RenderProg(p.Clone()).Toks; !sameToks(back, toks) {
			panic(fmt.Sprintf("HARNESS-ERROR: R2's tree does not render back to its tokens: %v | %v", toks, back))
		}
		o := ref.Run(p)
		if o.Unspecified != "" {
			rec.Case(false, harness.Hash("unspec"), "skipped:"+o.Unspecified)
			return
		}
		a := interpret(src)
		viol := compareOutcome(o, a)
		rec.Case(true, harness.Hash(src), "mutants:accepted-sentence", outcomeFeat(o))
		rec.Sample(func() any { return map[string]any{"mutated_src": clip(src, 300)} })
		if viol != "" {
			rec.Fail(t, c, "mutated program (still a sentence): %s\nsource:\n%s", viol, src)
		}
	})
}

func sameToks(a, b []gen.Tok) bool {
	if len(a) != len(b) {
		return false
	}
	for i := range a {
		if a[i] != b[i] {
			return false
		}
	}
	return true
}
