package props

import (
	"testing"

	"pgregory.net/rapid"

	"verif/gen"
	"verif/ref"
)

// C02 — lexical scoping and state flow of variables versus fields.

func cfgC02(t *rapid.T) gen.ProgCfg {
	cfg := gen.DefaultCfg()
	cfg.MaxTop = 10
	cfg.MaxBody = 7
	cfg.MaxDepth = gen.Pick(t, "maxdepth", []int{2, 3, 4, 6})
	cfg.ExprDepth = 3
	cfg.PWild = 5
	cfg.PIllegal = 15
	cfg.PUnknown = 10
	cfg.PrintState = true
	cfg.PEmbedAsg = 25
	cfg.PDupChild = 0
	cfg.BNames = []string{"", `"a"`, `"b"`, `"c"`, `"d"`, `"e"`, `"f"`}
	return cfg
}

func genC02(t *rapid.T) caseProg {
	return genCaseProg(t, cfgC02(t), gen.LayoutOpts{Plain: 95})
}

func nontrivialC02(c caseProg, o *ref.Outcome, sh *progShape) bool {
	return c.Feat["shadow"] > 0 || sh.varAndField || sh.embeddedAsg || c.Feat["illegal"] > 0 ||
		c.Feat["unknownread"] > 0 || sh.localsAfter
}

func TestC02(t *testing.T)       { runProgProperty(t, "C02", genC02, nontrivialC02, nil) }
func TestReplayC02(t *testing.T) { replayOnly(t); TestC02(t) }
