package props

import (
	"bytes"
	"errors"
	"fmt"
	"io"
	"os"
	"runtime"
	"strings"
	"sync/atomic"
	"testing"
	"time"

	"pgregory.net/rapid"

	"github.com/wkhere/bcl"

	"verif/gen"
	"verif/harness"
)

// C11 — ParseFile terminates, closes its input exactly once, leaks nothing.

// inputSpec describes a (possibly multi-page) input compactly.
type inputSpec struct {
	Lines   int    `json:"lines"`
	ErrAt   []int  `json:"err_at"`          // lines carrying a syntax error
	LexAt   int    `json:"lex_at"`          // line carrying a lexical failure, -1 = none
	Wide    bool   `json:"wide"`            // long lines (fewer lines per page)
	NoFinal bool   `json:"no_final"`        // no newline at the very end
	Multi   bool   `json:"multi,omitempty"` // the padding comments consist of two-byte characters (reads split them)
	Tail    string `json:"tail,omitempty"`  // appended after the last line: the input may end inside a multi-byte character
}

func (s inputSpec) source() string {
	var sb strings.Builder
	errs := map[int]bool{}
	for _, l := range s.ErrAt {
		errs[l] = true
	}
	for i := 0; i < s.Lines; i++ {
		pad := ""
		if s.Wide {
			pad = " # " + strings.Repeat("w", 90)
			if s.Multi {
				pad = " # " + strings.Repeat("\u00e9", 45)
			}
		}
		switch {
		case i == s.LexAt:
			fmt.Fprintf(&sb, "print %d @ 2%s\n", i, pad)
		case errs[i]:
			fmt.Fprintf(&sb, "print )%s\n", pad)
		default:
			fmt.Fprintf(&sb, "print %d%s\n", i%10, pad)
		}
	}
	out := sb.String()
	if s.NoFinal && len(out) > 0 {
		out = out[:len(out)-1]
	}
	return out + s.Tail
}

// action of a callback: how it perturbs the schedule
type action struct {
	Kind string `json:"kind"` // "" | yield | sleep | wait
	N    int    `json:"n"`    // yields, microseconds, or the count waited for
}

type caseC11 struct {
	Input    inputSpec  `json:"input"`
	Script   []readStep `json:"script"`
	ReadActs []action   `json:"read_acts"` // per Read call (cycled)
	LogActs  []action   `json:"log_acts"`  // per Write on the log writer (cycled)
	Entry    string     `json:"entry"`     // ParseFile | InterpretFile | UnmarshalFile
	Target   string     `json:"target"`    // UnmarshalFile: ptr (default) | value | nil | int
	CloseAct action     `json:"close_act"`
}

func perform(a action, progress *int64) {
	switch a.Kind {
	case "yield":
		for i := 0; i < a.N; i++ {
			runtime.Gosched()
		}
	case "sleep":
		time.Sleep(time.Duration(a.N) * time.Microsecond)
	case "wait":
		// gate: until the other side has made N steps, at most 20 ms
		deadline := time.Now().Add(20 * time.Millisecond)
		for atomic.LoadInt64(progress) < int64(a.N) && time.Now().Before(deadline) {
			runtime.Gosched()
		}
	}
}

// bclGoroutines returns the stacks of goroutines that are inside the library.
var stackBuf = make([]byte, 1<<20)

func bclGoroutines() []string {
	buf := stackBuf
	n := runtime.Stack(buf, true)
	var out []string
	for _, g := range strings.Split(string(buf[:n]), "\n\n") {
		if strings.Contains(g, "github.com/wkhere/bcl.") || strings.Contains(g, "github.com/wkhere/bcl/") {
			// the goroutine running this very check is not inside the library
			// once the call has returned
			out = append(out, g)
		}
	}
	return out
}

type histC11 struct {
	returned   bool
	err        error
	closes     int
	closesLate int
	leaked     []string
	file       *scriptFile
	logWrites  int64
	inversion  []string
}

func runC11(c caseC11) histC11 {
	src := c.Input.source()
	var h histC11
	var reads, writes int64
	f := &scriptFile{data: []byte(src), script: c.Script, name: "f"}
	h.file = f
	f.onRead = func(k int) {
		atomic.AddInt64(&reads, 1)
		// the drawn actions apply to the first reads (a long input would
		// otherwise spend its time in the gates)
		if k < len(c.ReadActs) {
			perform(c.ReadActs[k], &writes)
		}
	}
	f.onClose = func() { perform(c.CloseAct, &writes) }
	var log lockedBuf
	var wi int64
	log.onWrite = func() {
		k := atomic.AddInt64(&wi, 1) - 1
		atomic.AddInt64(&writes, 1)
		if int(k) < len(c.LogActs) {
			perform(c.LogActs[k], &reads)
		}
	}
	done := make(chan error, 1)
	go func() {
		var err error
		defer func() {
			if p := recover(); p != nil {
				err = fmt.Errorf("panic: %v", p)
			}
			done <- err
		}()
		opts := []bcl.Option{bcl.OptLogger(&log), bcl.OptOutput(io.Discard)}
		switch c.Entry {
		case "InterpretFile":
			_, _, err = bcl.InterpretFile(f, opts...)
		case "UnmarshalFile":
			var tgt struct{ Name string }
			switch c.Target {
			case "value":
				err = bcl.UnmarshalFile(f, tgt, opts...)
			case "nil":
				err = bcl.UnmarshalFile(f, nil, opts...)
			case "int":
				err = bcl.UnmarshalFile(f, 5, opts...)
			default:
				err = bcl.UnmarshalFile(f, &tgt, opts...)
			}
		default:
			_, err = bcl.ParseFile(f, opts...)
		}
	}()
	select {
	case h.err = <-done:
		h.returned = true
	case <-time.After(30 * time.Second):
		return h
	}
	f.mu.Lock()
	h.closes = f.closes
	f.mu.Unlock()
	// grace period: the reader goroutine's deferred Close may run just after
	// the call returns
	deadline := time.Now().Add(5 * time.Second)
	for {
		f.mu.Lock()
		h.closesLate = f.closes
		f.mu.Unlock()
		h.leaked = bclGoroutines()
		if (h.closesLate >= 1 && len(h.leaked) == 0) || time.Now().After(deadline) {
			break
		}
		time.Sleep(200 * time.Microsecond)
	}
	h.logWrites = atomic.LoadInt64(&writes)
	return h
}

func checkC11(c caseC11) (viol string, nontrivial bool, feats []string) {
	src := c.Input.source()
	h := runC11(c)
	f := h.file
	feats = append(feats, "entry:"+c.Entry)
	// classify the input
	class := "valid"
	switch {
	case c.Input.Lines == 0:
		class = "empty"
	case c.Input.LexAt >= 0:
		class = "lexical"
	case len(c.Input.ErrAt) > 0:
		class = "syntax"
	}
	feats = append(feats, "input:"+class)
	if !h.returned {
		return fmt.Sprintf("%s did not return within 30 s (reads=%d closes=%d)", c.Entry, f.reads, f.closes), false, feats
	}
	f.mu.Lock()
	defer f.mu.Unlock()
	if h.err != nil && strings.HasPrefix(h.err.Error(), "panic:") {
		return fmt.Sprintf("%s panicked: %v", c.Entry, h.err), false, feats
	}
	switch {
	case h.closes > 1 || h.closesLate > 1:
		return fmt.Sprintf("Close was called %d times", h.closesLate), false, feats
	case h.closesLate == 0:
		return "Close was never called (waited 5 s after the call returned)", false, feats
	case len(h.leaked) > 0:
		return fmt.Sprintf("%d goroutine(s) of the call are still inside the library 5 s after it returned:\n%s", len(h.leaked), clip(h.leaked[0], 800)), false, feats
	case f.readAfterClose:
		return "Read was called after Close", false, feats
	case f.readAfterEnd:
		return "Read was called after a Read had returned (0, EOF) or an error", false, feats
	}
	// what was delivered
	delivered := src[:f.delivered]
	premature := false
	failStep := false
	for _, st := range c.Script {
		if st.Err == "eofnow" {
			premature = true
		}
		if st.Err == "fail" || st.Err == "fail-wraps-eof" {
			failStep = true
		}
	}
	if f.sentErr {
		feats = append(feats, "read-error-delivered")
		// the read error itself or an error wrapping it
		want := errSentinel
		if f.sentWrapped {
			want = errSentinelEOF
			feats = append(feats, "read-error-wraps-io.EOF")
		}
		if !errors.Is(h.err, want) {
			return fmt.Sprintf("a Read returned the error %q, but the call returned %v", want, h.err), false, feats
		}
	} else {
		if errors.Is(h.err, errSentinel) || errors.Is(h.err, errSentinelEOF) {
			return "the call returned the injected error although no Read returned it", false, feats
		}
		// outcome class as for the whole (delivered) input, unless the reader
		// was stopped early because parsing had already failed
		if f.delivered == len(src) || premature {
			var werr error
			switch c.Entry {
			case "InterpretFile":
				_, _, werr = bcl.Interpret([]byte(delivered), bcl.OptLogger(io.Discard), bcl.OptOutput(io.Discard))
			case "UnmarshalFile":
				var tgt struct{ Name string }
				werr = bcl.Unmarshal([]byte(delivered), &tgt, bcl.OptLogger(io.Discard), bcl.OptOutput(io.Discard))
				if c.Target != "" && c.Target != "ptr" && werr == nil {
					werr = fmt.Errorf("a target that is not a pointer cannot be bound")
				}
			default:
				_, werr = bcl.Parse([]byte(delivered), "f", bcl.OptLogger(io.Discard))
			}
			if (werr == nil) != (h.err == nil) {
				return fmt.Sprintf("%s returned %v, the same call on the whole delivered input returns %v", c.Entry, h.err, werr), false, feats
			}
		} else if h.err == nil {
			return fmt.Sprintf("%s succeeded although only %d of %d bytes were read", c.Entry, f.delivered, len(src)), false, feats
		}
	}
	// after a lexical failure reading stops within a few reads
	if c.Input.LexAt >= 0 && !f.sentErr {
		_, lerr := gen.Tokenize(src)
		if lerr != nil {
			k := -1
			for i, e := range f.readEnds {
				if e >= lerr.Off {
					k = i
					break
				}
			}
			if k >= 0 && f.dataReads > k+1+3 {
				return fmt.Sprintf("lexical failure at offset %d was delivered by data read %d, yet %d data reads were made (%d bytes of %d)", lerr.Off, k+1, f.dataReads, f.delivered, len(src)), false, feats
			}
			if k >= 0 && len(f.readEnds)-k-1 >= 2 {
				feats = append(feats, "lexical:pages-remaining-after-failure")
				nontrivial = true
			}
			remaining := (len(src) - lerr.Off) / 4096
			if remaining >= 2 {
				nontrivial = true
				feats = append(feats, "lexical:>=2-pages-remain")
			}
		}
	}
	for _, st := range c.Script {
		switch {
		case st.N == 0 && st.Err == "":
			nontrivial = true
			feats = append(feats, "script:zero-byte-read")
		case st.Err == "eof":
			nontrivial = true
			feats = append(feats, "script:eof-with-data")
		case st.Err == "eofnow":
			nontrivial = true
			feats = append(feats, "script:premature-eof")
		}
	}
	if failStep {
		nontrivial = true
		if f.sentErr {
			feats = append(feats, "script:error-reached")
		} else {
			feats = append(feats, "script:error-not-reached")
		}
	}
	gated := false
	for _, a := range append(append([]action{}, c.ReadActs...), c.LogActs...) {
		if a.Kind == "wait" {
			gated = true
		}
	}
	if gated && h.logWrites >= 3 {
		feats = append(feats, "gated-against-diagnostics")
		nontrivial = true
	}
	feats = dedup(feats)
	return "", nontrivial, feats
}

func dedup(s []string) []string {
	seen := map[string]bool{}
	var out []string
	for _, x := range s {
		if !seen[x] {
			seen[x] = true
			out = append(out, x)
		}
	}
	return out
}

func genAction(t *rapid.T, maxWait int) action {
	switch gen.Weighted(t, "act", 40, 25, 15, 20) {
	case 1:
		return action{Kind: "yield", N: gen.Int(t, 1, 20, "yields")}
	case 2:
		return action{Kind: "sleep", N: gen.Int(t, 1, 300, "us")}
	case 3:
		return action{Kind: "wait", N: gen.Int(t, 1, maxWait, "waitfor")}
	}
	return action{}
}

func genC11(t *rapid.T) caseC11 {
	var c caseC11
	c.Entry = gen.Pick(t, "entry", []string{"ParseFile", "ParseFile", "InterpretFile", "UnmarshalFile"})
	if c.Entry == "UnmarshalFile" {
		c.Target = gen.Pick(t, "target", []string{"ptr", "ptr", "ptr", "value", "nil", "int"})
	}
	in := inputSpec{LexAt: -1, Wide: gen.Bool(t, "wide"), NoFinal: gen.Chance(t, 20, "nofinal")}
	perPage := 4096 / 8
	if in.Wide {
		perPage = 4096 / 100
	}
	pages := gen.Weighted(t, "pages", 8, 27, 25, 25, 15) // 0, <1, 1-3, 4-12, 13-40
	switch pages {
	case 0:
		in.Lines = 0
	case 1:
		in.Lines = gen.Int(t, 1, perPage-1, "lines")
	case 2:
		in.Lines = gen.Int(t, perPage, 3*perPage, "lines")
	case 3:
		in.Lines = gen.Int(t, 4*perPage, 12*perPage, "lines")
	default:
		in.Lines = gen.Int(t, 13*perPage, 40*perPage, "lines")
	}
	if in.Lines > 0 {
		switch gen.Weighted(t, "inclass", 25, 12, 12, 13, 23, 15) {
		case 1: // early syntax error
			in.ErrAt = []int{gen.Int(t, 0, min(in.Lines-1, 5), "errline")}
		case 2: // late
			in.ErrAt = []int{in.Lines - 1 - gen.Int(t, 0, min(in.Lines-1, 5), "errline")}
		case 3: // many
			for l := 0; l < in.Lines; l += gen.Int(t, 1, 40, "errstep") {
				in.ErrAt = append(in.ErrAt, l)
				if len(in.ErrAt) > 3000 {
					break
				}
			}
		case 4: // early lexical failure, long tail
			in.LexAt = gen.Int(t, 0, min(in.Lines-1, perPage), "lexline")
		case 5: // late lexical failure
			in.LexAt = in.Lines - 1 - gen.Int(t, 0, min(in.Lines-1, 10), "lexline")
			if gen.Bool(t, "witherrs") {
				in.ErrAt = []int{gen.Int(t, 0, in.Lines-1, "errline")}
			}
		}
	}
	in.Multi = in.Wide && gen.Chance(t, 30, "multi")
	if gen.Chance(t, 15, "tail") {
		// the input ends inside a multi-byte character (in a comment: still a
		// valid program; at toplevel or in a string: a late lexical failure),
		// or just after a complete one
		in.Tail = gen.Pick(t, "tailkind", []string{"# caf\xc3", "#\xe2\x82", "\xf0\x9f\x98", "print \"\xc3", "\xc3", "# \u00e9", "print \"\u00e9\"", "\xe2"})
	}
	c.Input = in
	size := len(in.source())
	// reader script
	nsteps := gen.Int(t, 0, 10, "nsteps")
	for i := 0; i < nsteps; i++ {
		st := readStep{N: 4096}
		switch gen.Weighted(t, "stepkind", 40, 25, 15, 20) {
		case 1:
			st.N = gen.Int(t, 1, 4096, "n")
		case 2:
			st.N = gen.Int(t, 1, 16, "nsmall")
		case 3:
			st.N = 0
		}
		c.Script = append(c.Script, st)
	}
	if gen.Chance(t, 6, "zerorun") {
		// a long run of consecutive zero-byte reads somewhere
		at := gen.Int(t, 0, len(c.Script), "zerorunat")
		run := make([]readStep, gen.Pick(t, "zerorunlen", []int{18, 25, 40, 99, 100, 101, 128, 300}))
		c.Script = append(c.Script[:at:at], append(run, c.Script[at:]...)...)
	}
	switch gen.Weighted(t, "ending", 45, 25, 15, 15) {
	case 1: // a read error at some step
		at := gen.Weighted(t, "errwhere", 30, 40, 30)
		var k int
		switch at {
		case 0:
			k = 0
		case 1:
			k = gen.Int(t, 0, size/4096+1, "errstep")
		default:
			k = size/4096 + len(c.Script) + 1 // after everything else
		}
		for len(c.Script) < k {
			c.Script = append(c.Script, readStep{N: 4096})
		}
		c.Script = append(c.Script[:k:k], readStep{Err: gen.Pick(t, "failkind", []string{"fail", "fail", "fail-wraps-eof"})})
	case 2: // EOF together with the last data
		for i := range c.Script {
			c.Script[i].Err = ""
		}
		for n, total := 0, size/4096+2; n < total; n++ {
			c.Script = append(c.Script, readStep{N: 4096, Err: "eof"})
		}
	case 3: // premature EOF
		k := gen.Int(t, 0, size/4096+1, "eofstep")
		for len(c.Script) < k {
			c.Script = append(c.Script, readStep{N: 4096})
		}
		c.Script = append(c.Script[:k:k], readStep{Err: "eofnow"})
	}
	for i, n := 0, gen.Int(t, 0, 10, "nreadacts"); i < n; i++ {
		c.ReadActs = append(c.ReadActs, genAction(t, 12))
	}
	for i, n := 0, gen.Int(t, 0, 12, "nlogacts"); i < n; i++ {
		c.LogActs = append(c.LogActs, genAction(t, 12))
	}
	c.CloseAct = genAction(t, 3)
	return c
}

// ---- real files: the FileInput is an *os.File (regular file, empty file,
// pipe), as the command-line tool passes it ----

type osInput struct {
	*os.File
	closes int32
}

func (f *osInput) Close() error {
	atomic.AddInt32(&f.closes, 1)
	return f.File.Close()
}

type caseC11OS struct {
	OSKind string    `json:"os_kind"` // regular | pipe
	Input  inputSpec `json:"input"`
	Entry  string    `json:"entry"`
}

func checkC11OS(c caseC11OS) string {
	src := c.Input.source()
	var in *osInput
	switch c.OSKind {
	case "pipe":
		pr, pw, err := os.Pipe()
		must(err)
		go func() {
			// in two writes, then the end
			half := len(src) / 2
			pw.WriteString(src[:half])
			time.Sleep(time.Millisecond)
			pw.WriteString(src[half:])
			pw.Close()
		}()
		in = &osInput{File: pr}
	default:
		f, err := os.CreateTemp(os.Getenv("VERIF_SCRATCH"), "c11-*.bcl")
		must(err)
		defer os.Remove(f.Name())
		_, err = f.WriteString(src)
		must(err)
		_, err = f.Seek(0, 0)
		must(err)
		in = &osInput{File: f}
	}
	done := make(chan error, 1)
	go func() {
		defer func() {
			if r := recover(); r != nil {
				done <- fmt.Errorf("panic: %v", r)
			}
		}()
		var err error
		switch c.Entry {
		case "InterpretFile":
			_, _, err = bcl.InterpretFile(in, bcl.OptOutput(io.Discard), bcl.OptLogger(io.Discard))
		default:
			_, err = bcl.ParseFile(in, bcl.OptOutput(io.Discard), bcl.OptLogger(io.Discard))
		}
		done <- err
	}()
	var err error
	select {
	case err = <-done:
	case <-time.After(30 * time.Second):
		in.File.Close()
		return fmt.Sprintf("%s on a real file (%s, %d bytes) did not return within 30 s (Close calls so far: %d)", c.Entry, c.OSKind, len(src), atomic.LoadInt32(&in.closes))
	}
	if err != nil && strings.HasPrefix(err.Error(), "panic:") {
		return fmt.Sprintf("%s on a real file panicked: %v", c.Entry, err)
	}
	deadline := time.Now().Add(5 * time.Second)
	for atomic.LoadInt32(&in.closes) == 0 && time.Now().Before(deadline) {
		time.Sleep(time.Millisecond)
	}
	if n := atomic.LoadInt32(&in.closes); n != 1 {
		return fmt.Sprintf("%s on a real file (%s): Close was called %d times", c.Entry, c.OSKind, n)
	}
	var werr error
	if c.Entry == "InterpretFile" {
		_, _, werr = bcl.Interpret([]byte(src), bcl.OptOutput(io.Discard), bcl.OptLogger(io.Discard))
	} else {
		_, werr = bcl.Parse([]byte(src), "n", bcl.OptOutput(io.Discard), bcl.OptLogger(io.Discard))
	}
	if (werr == nil) != (err == nil) {
		return fmt.Sprintf("%s on a real file (%s) returned %v, the same call on the bytes returns %v", c.Entry, c.OSKind, err, werr)
	}
	return ""
}

func TestC11(t *testing.T) {
	rec := harness.Get("C11")
	rec.SetExtra("gomaxprocs_of_shards", os.Getenv("GOMAXPROCS"))
	if path := replayPath(); path != "" {
		if strings.Contains(mustRead(path), `"os_kind"`) {
			var oc caseC11OS
			must(harness.LoadReplay(path, &oc))
			if viol := checkC11OS(oc); viol != "" {
				rec.Fail(t, oc, "%s", viol)
			}
			return
		}
		var c caseC11
		must(harness.LoadReplay(path, &c))
		for i := 0; i < 20; i++ {
			if viol, _, _ := checkC11(c); viol != "" {
				rec.Fail(t, c, "%s", viol)
			}
		}
		return
	}
	rapid.Check(t, func(t *rapid.T) {
		if gen.Chance(t, 8, "osfile") {
			oc := caseC11OS{OSKind: gen.Pick(t, "oskind", []string{"regular", "pipe"}), Entry: gen.Pick(t, "osentry", []string{"ParseFile", "InterpretFile"})}
			oc.Input = inputSpec{LexAt: -1, Lines: gen.Pick(t, "oslines", []int{0, 0, 1, 3, 600, 3000})}
			switch gen.Uniform(t, 4, "osclass") {
			case 1:
				if oc.Input.Lines > 0 {
					oc.Input.ErrAt = []int{oc.Input.Lines - 1}
				}
			case 2:
				if oc.Input.Lines > 0 {
					oc.Input.LexAt = 0
				}
			}
			viol := checkC11OS(oc)
			rec.Case(true, harness.Hash("os", fmt.Sprintf("%+v", oc)), "input:real-file-"+oc.OSKind, fmt.Sprintf("real-file-empty=%v", oc.Input.Lines == 0))
			if viol != "" {
				rec.Fail(t, oc, "%s", viol)
			}
			return
		}
		c := genC11(t)
		for rep := 0; rep < 2; rep++ { // schedules differ between repeats
			viol, nt, feats := checkC11(c)
			if rep == 0 {
				rec.Case(nt, harness.Hash(fmt.Sprintf("%+v", c)), append(feats, "GOMAXPROCS:"+fmt.Sprint(runtime.GOMAXPROCS(0)))...)
				if nt {
					rec.Sample(func() any {
						return map[string]any{"input": c.Input.short(), "entry": c.Entry, "script": clipSteps(c.Script), "read_acts": c.ReadActs, "log_acts": c.LogActs}
					})
				}
			}
			if viol != "" {
				rec.Fail(t, c, "%s\ninput %s entry %s\nscript %s\nread actions %v log actions %v", viol, c.Input.short(), c.Entry, clipSteps(c.Script), c.ReadActs, c.LogActs)
			}
		}
	})
}

func (s inputSpec) short() string {
	e := fmt.Sprint(s.ErrAt)
	if len(s.ErrAt) > 6 {
		e = fmt.Sprintf("%v...(%d)", s.ErrAt[:6], len(s.ErrAt))
	}
	return fmt.Sprintf("{lines:%d syntax-errors-at:%s lexical-at:%d wide:%v bytes:%d}", s.Lines, e, s.LexAt, s.Wide, len(s.source()))
}

func TestReplayC11(t *testing.T) { replayOnly(t); TestC11(t) }

var _ = bytes.NewReader
