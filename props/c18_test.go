package props

import (
	"bytes"
	"context"
	"fmt"
	"os"
	"os/exec"
	"path/filepath"
	"strings"
	"testing"
	"time"

	"pgregory.net/rapid"

	"github.com/wkhere/bcl"

	"verif/bc"
	"verif/gen"
	"verif/harness"
	"verif/ref"
)

// C18 — the command-line tool mirrors the library.

type cliResult struct {
	Stdout string
	Stderr string
	Status int
}

// slowStdin, when set, feeds standard input through a pipe in several writes
// with pauses, as a slow producer would.
var slowStdin []int

func runCLI(dir string, stdin string, args ...string) cliResult {
	bin := os.Getenv("VERIF_BCL_BIN")
	if bin == "" {
		panic("HARNESS-ERROR: VERIF_BCL_BIN not set (run through ./check)")
	}
	ctx, cancel := context.WithTimeout(context.Background(), 60*time.Second)
	defer cancel()
	cmd := exec.CommandContext(ctx, bin, args...)
	cmd.Dir = dir
	if len(slowStdin) > 0 && stdin != "" {
		pr, pw, err := os.Pipe()
		must(err)
		cmd.Stdin = pr
		parts := slowStdin
		go func() {
			defer pw.Close()
			rest := stdin
			for _, n := range parts {
				if n > len(rest) {
					n = len(rest)
				}
				pw.WriteString(rest[:n])
				rest = rest[n:]
				time.Sleep(15 * time.Millisecond)
			}
			pw.WriteString(rest)
		}()
		defer pr.Close()
	} else {
		cmd.Stdin = strings.NewReader(stdin)
	}
	var so, se bytes.Buffer
	cmd.Stdout, cmd.Stderr = &so, &se
	err := cmd.Run()
	st := 0
	if ctx.Err() != nil {
		return cliResult{so.String(), "VERIF: the tool did not exit within 60 s and was killed\n" + se.String(), -99}
	}
	if err != nil {
		if ee, ok := err.(*exec.ExitError); ok {
			st = ee.ExitCode()
		} else {
			panic("HARNESS-ERROR: cannot run the CLI: " + err.Error())
		}
	}
	return cliResult{so.String(), se.String(), st}
}

type flagSet struct{ d, t, r, s bool }

func (f flagSet) letters() string {
	out := ""
	for _, p := range []struct {
		on bool
		l  string
	}{{f.d, "d"}, {f.t, "t"}, {f.r, "r"}, {f.s, "s"}} {
		if p.on {
			out += p.l
		}
	}
	return out
}

// predict runs the library the way the tool is documented to and gives the
// expected streams and status.
func predict(src, name string, fl flagSet) (res cliResult, parseFailed bool, listing string) {
	var out, errb bytes.Buffer
	p, err := bcl.ParseFile(&scriptFile{data: []byte(src), name: name}, bcl.OptOutput(&out), bcl.OptLogger(&errb),
		bcl.OptDisasm(fl.d), bcl.OptStats(fl.s))
	if err != nil {
		return cliResult{out.String(), errb.String(), 1}, true, ""
	}
	blocks, binding, err := bcl.Execute(p, bcl.OptOutput(&out), bcl.OptLogger(&errb), bcl.OptTrace(fl.t), bcl.OptStats(fl.s))
	if err != nil {
		return cliResult{out.String(), errb.String(), 1}, false, ""
	}
	return cliResult{out.String(), errb.String(), 0}, false, fmt.Sprintf("result:  %+v\nbinding: %+v\n", blocks, binding)
}

// strictListing: the tool's -r listing has the format this harness knows
// ("result:  %+v" and "binding: %+v" of what Execute returned). No property
// fixes that format, so it is not demanded; but while it is in use the values
// in it are compared exactly. calibrateC18 decides it on a known program.
var strictListing bool

func calibrateC18() {
	dir, err := os.MkdirTemp(os.Getenv("VERIF_SCRATCH"), "c18cal")
	must(err)
	defer os.RemoveAll(dir)
	src := "def b \"n\" { x = 1; y = \"s\" }\ndef b { z = 2.5 }\nbind b:all -> slice\nprint 7\n"
	must(os.WriteFile(filepath.Join(dir, "p.bcl"), []byte(src), 0o644))
	want, _, listing := predict(src, "p.bcl", flagSet{r: true})
	got := runCLI(dir, "", "-r", "p.bcl")
	strictListing = got.Status == 0 && got.Stdout == want.Stdout+listing
	harness.Get("C18").SetExtra("result_listing_compared", fmt.Sprintf("%v (true: the tool's -r listing has the known format and its values are compared exactly; false: only its presence is required)", strictListing))
}

// mirrors tells whether the tool's run is what the library's run predicts:
// the same status; standard output is what the library wrote, followed (only
// with -r on a successful run) by the tool's own listing of the results,
// whose format no property fixes; standard error is what the library logged,
// followed (only on failure) by the tool's own line reporting the error.
func mirrors(got, want cliResult, fl flagSet, listing string) bool {
	if got.Status != want.Status {
		return false
	}
	switch {
	case fl.r && want.Status == 0 && strictListing:
		// the known listing format is in use (see calibrateC18): every value
		// must come out as the library returned it
		if got.Stdout != want.Stdout+listing {
			return false
		}
	case fl.r && want.Status == 0:
		if !strings.HasPrefix(got.Stdout, want.Stdout) || len(got.Stdout) == len(want.Stdout) {
			return false
		}
	case got.Stdout != want.Stdout:
		return false
	}
	if want.Status != 0 {
		return strings.HasPrefix(got.Stderr, want.Stderr) && strings.TrimSpace(got.Stderr[len(want.Stderr):]) != ""
	}
	return got.Stderr == want.Stderr
}

type caseC18 struct {
	Src   string     `json:"src"`
	Argvs [][]string `json:"argvs"`
	Mode  string     `json:"mode"`            // file | dash | stdin
	File  string     `json:"file,omitempty"`  // the FILE argument ("" or "-": standard input)
	Flags string     `json:"flags,omitempty"` // letters of the flag set (d, t, r, s)
	Note  string     `json:"note"`
}

// spellFlags renders a flag set as an argument list: long or short forms,
// clustered in any grouping, in a drawn order.
func spellFlags(t *rapid.T, fl flagSet) []string {
	var letters []string
	long := map[string]string{"d": "--disasm", "t": "--trace", "r": "--result", "s": "--stats"}
	for _, p := range []struct {
		on bool
		l  string
	}{{fl.d, "d"}, {fl.t, "t"}, {fl.r, "r"}, {fl.s, "s"}} {
		if p.on {
			letters = append(letters, p.l)
			// a flag given twice is still the same flag
			if gen.Chance(t, 10, "dup") {
				letters = append(letters, p.l)
			}
		}
	}
	// shuffle
	for i := len(letters) - 1; i > 0; i-- {
		j := gen.Uniform(t, i+1, "shuffle")
		letters[i], letters[j] = letters[j], letters[i]
	}
	var args []string
	for i := 0; i < len(letters); {
		switch gen.Weighted(t, "form", 35, 25, 40) {
		case 0:
			args = append(args, "-"+letters[i])
			i++
		case 1:
			args = append(args, long[letters[i]])
			i++
		default:
			n := gen.Int(t, 2, 4, "cluster")
			if i+n > len(letters) {
				n = len(letters) - i
			}
			if n < 2 {
				args = append(args, "-"+letters[i])
				i++
				continue
			}
			args = append(args, "-"+strings.Join(letters[i:i+n], ""))
			i += n
		}
	}
	return args
}

// placeFile inserts the file argument at a drawn position ("--" before it
// forces the rest to be files, so it then goes last).
func placeFile(t *rapid.T, flags []string, file string) []string {
	if file == "" {
		return flags
	}
	if gen.Chance(t, 15, "dashdash") {
		return append(append([]string{}, flags...), "--", file)
	}
	at := gen.Uniform(t, len(flags)+1, "filepos")
	out := append([]string{}, flags[:at]...)
	out = append(out, file)
	return append(out, flags[at:]...)
}

// sameButParseStats tells whether a run from bytecode printed what the run
// from source printed, parse statistics aside (a loaded program has none):
// without -s exactly the same; with -s the lines of the bytecode run must
// occur in the source run in the same order, whatever the statistics look like.
func sameButParseStats(load, source string, stats bool) bool {
	if !stats {
		return load == source
	}
	if load == stripPstats(source) {
		return true
	}
	full := strings.SplitAfter(source, "\n")
	k := 0
	for _, l := range strings.SplitAfter(load, "\n") {
		for k < len(full) && full[k] != l {
			k++
		}
		if k == len(full) {
			return false
		}
		k++
	}
	return true
}

func stripPstats(s string) string {
	var out []string
	for _, l := range strings.SplitAfter(s, "\n") {
		if !strings.HasPrefix(l, "pstats.") {
			out = append(out, l)
		}
	}
	return strings.Join(out, "")
}

func TestC18(t *testing.T) {
	rec := harness.Get("C18")
	calibrateC18()
	if replayPath() != "" {
		var c caseC18
		must(harness.LoadReplay(replayPath(), &c))
		t.Logf("replay of C18: re-running the recorded argument vectors")
		dir := t.TempDir()
		must(os.WriteFile(filepath.Join(dir, "p.bcl"), []byte(c.Src), 0o644))
		must(os.WriteFile(filepath.Join(dir, "p.txt"), []byte(c.Src), 0o644))
		must(os.Mkdir(filepath.Join(dir, "adir"), 0o755))
		stdin, name := c.Src, "/dev/stdin"
		if c.File != "" && c.File != "-" {
			must(os.MkdirAll(filepath.Join(dir, filepath.Dir(c.File)), 0o755))
			must(os.WriteFile(filepath.Join(dir, c.File), []byte(c.Src), 0o644))
			stdin, name = "", c.File
		}
		fl := flagSet{strings.Contains(c.Flags, "d"), strings.Contains(c.Flags, "t"), strings.Contains(c.Flags, "r"), strings.Contains(c.Flags, "s")}
		var first *cliResult
		for k, av := range c.Argvs {
			r := runCLI(dir, stdin, av...)
			isDumpLoad := false
			for _, a := range av {
				if strings.HasPrefix(a, "--bdump") || strings.HasPrefix(a, "--bload") {
					isDumpLoad = true
				}
			}
			if k == 0 && !strings.HasPrefix(c.Note, "usage") {
				want, _, listing := predict(c.Src, name, fl)
				if !mirrors(r, want, fl, listing) {
					rec.Fail(t, c, "bcl %v differs from the library called the documented way: status %d vs %d\nstdout %q\n    vs %q\nstderr %q\n    vs %q", av, r.Status, want.Status,
						clip(r.Stdout, 600), clip(want.Stdout, 600), clip(r.Stderr, 300), clip(want.Stderr, 300))
				}
			}
			if first == nil {
				first = &r
			} else if !isDumpLoad && r != *first {
				rec.Fail(t, c, "argument vectors %v and %v give different results: status %d vs %d, stdout %q vs %q, stderr %q vs %q", c.Argvs[0], av,
					first.Status, r.Status, clip(first.Stdout, 300), clip(r.Stdout, 300), clip(first.Stderr, 200), clip(r.Stderr, 200))
			} else if isDumpLoad && r.Status != first.Status {
				rec.Fail(t, c, "bcl %v exits with %d, bcl %v with %d (stderr %q)", av, r.Status, c.Argvs[0], first.Status, clip(r.Stderr, 300))
			}
		}
		return
	}
	scratch := os.Getenv("VERIF_SCRATCH")
	if scratch == "" {
		scratch = t.TempDir()
	}
	caseNo := 0
	rapid.Check(t, func(t *rapid.T) {
		caseNo++
		dir := filepath.Join(scratch, fmt.Sprintf("c18-%d-%d", os.Getpid(), caseNo))
		must(os.MkdirAll(dir, 0o755))
		defer os.RemoveAll(dir)
		var feats []string

		// usage errors and I/O errors
		if gen.Chance(t, 12, "usage") {
			kind := gen.Pick(t, "usagekind", []string{"unknown-short", "unknown-long", "cluster-nonletter", "two-files", "bdump-no-name", "bload-conflict", "bdump-junk", "help", "missing-file", "directory"})
			must(os.WriteFile(filepath.Join(dir, "p.bcl"), []byte("print 1\n"), 0o644))
			must(os.Mkdir(filepath.Join(dir, "adir"), 0o755))
			var argv []string
			wantStatus, wantUsage := 2, true
			switch kind {
			case "unknown-short":
				argv = []string{"-x", "p.bcl"}
			case "unknown-long":
				argv = []string{gen.Pick(t, "ul", []string{"--nope", "--disasmx", "--", "--"}), "p.bcl", "q.bcl"}
			case "cluster-nonletter":
				argv = []string{gen.Pick(t, "cn", []string{"-d1", "-dR", "-r-s", "-d="}), "p.bcl"}
			case "two-files":
				argv = []string{"p.bcl", "-d", "p.bcl"}
			case "bdump-no-name":
				argv = []string{"--bdump", gen.Pick(t, "bn", []string{"p.txt", "-", "p"})}
			case "bload-conflict":
				argv = []string{"--bload=x.bcb", "p.bcl"}
			case "bdump-junk":
				argv = []string{gen.Pick(t, "bj", []string{"--bdumpx", "--bloadx", "--bdump:f"}), "p.bcl"}
			case "help":
				argv = []string{"-h"}
				wantStatus, wantUsage = 0, false
			case "missing-file":
				argv = []string{"-d", "nonexistent.bcl"}
				wantStatus, wantUsage = 1, false
			case "directory":
				argv = []string{"adir"}
				wantStatus, wantUsage = 1, false
			}
			r := runCLI(dir, "", argv...)
			c := caseC18{Src: "print 1\n", Argvs: [][]string{argv}, Note: "usage:" + kind}
			rec.Case(true, harness.Hash("usage", strings.Join(argv, " ")), "usage:"+kind)
			switch {
			case r.Status != wantStatus:
				rec.Fail(t, c, "bcl %v: exit status %d, expected %d (stderr %q)", argv, r.Status, wantStatus, r.Stderr)
			case wantUsage && (r.Stdout != "" || strings.TrimSpace(r.Stderr) == ""):
				rec.Fail(t, c, "bcl %v: usage error must leave stdout empty and explain the usage on stderr; stdout %q stderr %q", argv, r.Stdout, r.Stderr)
			case kind == "help" && (strings.TrimSpace(r.Stdout) == "" || r.Stderr != ""):
				rec.Fail(t, c, "bcl -h: stdout %q stderr %q", r.Stdout, r.Stderr)
			case wantStatus == 1 && (r.Stderr == "" || r.Stdout != ""):
				rec.Fail(t, c, "bcl %v: an I/O error must be reported on stderr only; stdout %q stderr %q", argv, r.Stdout, r.Stderr)
			}
			return
		}

		// a program
		cfg := acceptedCfg(t)
		cfg.PIllegal = 12
		cfg.PDivZero = 20
		p, _ := gen.GenProg(t, cfg)
		if gen.Chance(t, 12, "plantstr") {
			// string constants at the sizes where the dump's buffers and
			// length prefixes change class, alone and in pairs a few bytes apart
			n := drawSize(t, "c18str")
			p.Stmts = append(p.Stmts, &gen.Stmt{K: "print", E: &gen.Expr{K: "str", T: gen.QuotePlain(longString(t, n))}})
			if gen.Chance(t, 40, "plantstr2") {
				m := n + gen.Pick(t, "c18delta", []int{7, 8, 9, -8, 1})
				if m < 0 {
					m = 0
				}
				p.Stmts = append(p.Stmts, &gen.Stmt{K: "print", E: &gen.Expr{K: "str", T: gen.QuotePlain(longString(t, m))}})
			}
		}
		o := ref.Run(p)
		if o.Unspecified != "" && o.Unspecified != "comparison with NaN" {
			rec.Case(false, harness.Hash("skip"), "skipped:"+o.Unspecified)
			return
		}
		toks := gen.RenderProg(p).Toks
		class := "ok"
		switch {
		case o.Compile != nil:
			class = "parse-error"
		case o.RT != nil:
			class = "runtime-error"
		case len(toks) == 0:
			class = "empty"
		}
		if len(toks) > 0 && gen.Chance(t, 8, "mutate") && !hasStar(toks) {
			toks = gen.GenMutation(t, toks, 10).Apply(toks)
			if hasStar(toks) {
				return
			}
			class = "mutant"
		}
		lay := gen.GenLayout(t, toks, gen.LayoutOpts{Plain: 85})
		if gen.Chance(t, 25, "pad") {
			// sources beyond the 1-, 2- and 3-byte classes of offsets and beyond one read page
			n := gen.Pick(t, "padsize", []int{250, 2300, 2300, 4100, 9000, 68000})
			var sb strings.Builder
			for sb.Len() < n {
				sb.WriteString("# " + strings.Repeat("p", gen.Int(t, 0, 70, "padline")) + "\n")
			}
			lay.Gaps[0] = sb.String() + lay.Gaps[0]
			// and a line end after the last token
			lay.Gaps[len(lay.Gaps)-1] += "\n"
			feats = append(feats, "padded-source")
		}
		if gen.Chance(t, 8, "pagealigned") {
			// a two-byte separator straddling a 4096-byte page boundary, right
			// after a token (the tool reads files in pages)
			var cand []int
			for i := 1; i < len(toks); i++ {
				cand = append(cand, i)
			}
			if len(cand) > 0 {
				i := gen.Pick(t, "alignat", cand)
				lay.Gaps[i] = gen.Pick(t, "alignsep", []string{"\u00a0", "\u0085"})
				_, pos := gen.Render(toks, lay)
				off := pos[i-1].End // first byte of the separator
				page := 4096 * gen.Int(t, 1, 2, "alignpage")
				if need := page - 1 - off; need >= 2 {
					lay.Gaps[0] = "#" + strings.Repeat("a", need-2) + "\n" + lay.Gaps[0]
					feats = append(feats, "separator-across-page-boundary")
				}
			}
		}
		src, _ := renderChecked(toks, lay)
		slowStdin = nil
		fl := flagSet{gen.Bool(t, "d"), gen.Bool(t, "t"), gen.Bool(t, "r"), gen.Bool(t, "s")}
		mode := gen.Pick(t, "mode", []string{"file", "file", "file-other-suffix", "dash", "stdin"})
		fileArg, name, stdin := "", "/dev/stdin", src
		switch mode {
		case "file":
			fileArg = gen.Pick(t, "filename", []string{"p.bcl", "p.bcl", "conf.bcl.d/in.bcl", "a.bcl.bcl", "x.bclx/y.bcl", ".bcl"})
			name, stdin = fileArg, ""
			must(os.MkdirAll(filepath.Join(dir, filepath.Dir(fileArg)), 0o755))
		case "file-other-suffix":
			fileArg, name, stdin = "sub/cfg.txt", "sub/cfg.txt", ""
			must(os.MkdirAll(filepath.Join(dir, "sub"), 0o755))
		case "dash":
			fileArg = "-"
		}
		if strings.HasPrefix(mode, "file") {
			must(os.WriteFile(filepath.Join(dir, fileArg), []byte(src), 0o644))
		} else if len(src) > 2 && gen.Chance(t, 30, "slowstdin") {
			// standard input arriving in several writes
			for i, k := 0, gen.Int(t, 1, 3, "nwrites"); i < k; i++ {
				slowStdin = append(slowStdin, gen.Int(t, 1, len(src)-1, "writesize"))
			}
			feats = append(feats, "stdin-in-several-writes")
		}
		feats = append(feats, "program:"+class, "input:"+mode)

		// (1) mirror
		want, parseFailed, listing := predict(src, name, fl)
		argv1 := placeFile(t, spellFlags(t, fl), fileArg)
		got := runCLI(dir, stdin, argv1...)
		c := caseC18{Src: src, Argvs: [][]string{argv1}, Mode: mode, Note: "mirror", File: fileArg, Flags: fl.letters()}
		if !mirrors(got, want, fl, listing) {
			rec.Case(true, harness.Hash(src, strings.Join(argv1, " ")), feats...)
			rec.Fail(t, c, "bcl %v differs from the library called the documented way (the tool's own result listing after the library's output and its own error line after the library's diagnostics are not compared):\n--- tool: status %d\nstdout %q\nstderr %q\n--- library: status %d\nstdout %q\nstderr %q\nsource:\n%s",
				argv1, got.Status, clip(got.Stdout, 600), clip(got.Stderr, 400), want.Status, clip(want.Stdout, 600), clip(want.Stderr, 400), clip(src, 500))
		}
		// (2) metamorphic: other spellings of the same flag set
		nvar := gen.Int(t, 1, 3, "nvariants")
		nontrivialArgv := false
		for i := 0; i < nvar; i++ {
			argv2 := placeFile(t, spellFlags(t, fl), fileArg)
			c.Argvs = append(c.Argvs, argv2)
			if strings.Join(argv2, " ") != strings.Join(argv1, " ") && len(argv2) >= 2 {
				nontrivialArgv = true
			}
			g2 := runCLI(dir, stdin, argv2...)
			if g2 != got {
				c.Note = "metamorphic"
				rec.Case(true, harness.Hash(src, strings.Join(argv2, " ")), feats...)
				rec.Fail(t, c, "bcl %v and bcl %v (same flags) differ:\nstatus %d vs %d\nstdout %q\n    vs %q\nstderr %q\n    vs %q", argv1, argv2,
					got.Status, g2.Status, clip(got.Stdout, 500), clip(g2.Stdout, 500), clip(got.Stderr, 300), clip(g2.Stderr, 300))
			}
		}
		// (4) dump and load
		pair := false
		if mode != "stdin" && mode != "dash" && gen.Chance(t, 50, "dumpload") {
			pair = true
			bf := "out.bcb"
			dumpArg := "--bdump=" + bf
			if mode == "file" && gen.Bool(t, "derive") {
				// the documented derivation: the .bcl suffix becomes .bcb
				dumpArg, bf = "--bdump", strings.TrimSuffix(fileArg, ".bcl")+".bcb"
			}
			if gen.Chance(t, 35, "stalebfile") {
				// BFILE exists already and is longer than the new dump (an
				// earlier, larger compilation): it must be replaced, not patched
				must(os.WriteFile(filepath.Join(dir, bf), append([]byte{0xFC, 0x6C, 1, 1}, bytes.Repeat([]byte{0xEE}, 90000)...), 0o644))
				feats = append(feats, "bdump-over-existing-file")
			}
			argvD := placeFile(t, append(spellFlags(t, fl), dumpArg), fileArg)
			gd := runCLI(dir, stdin, argvD...)
			c.Argvs = append(c.Argvs, argvD)
			if gd != got {
				c.Note = "bdump"
				rec.Case(true, harness.Hash(src, strings.Join(argvD, " ")), feats...)
				rec.Fail(t, c, "with %s the tool behaves differently: status %d vs %d, stdout %q vs %q, stderr %q vs %q", dumpArg, gd.Status, got.Status,
					clip(gd.Stdout, 400), clip(got.Stdout, 400), clip(gd.Stderr, 300), clip(got.Stderr, 300))
			}
			parsedOK := !parseFailed
			b, rerr := os.ReadFile(filepath.Join(dir, bf))
			if parsedOK {
				if rerr != nil || len(b) < 4 || b[0] != 0xFC || b[1] != 0x6C || b[2] != 1 || b[3] != 1 {
					rec.Fail(t, c, "%s did not write a version 1.1 bytecode file (%v, %d bytes)", dumpArg, rerr, len(b))
				}
				f1, derr := bc.Decode(b)
				if derr != nil {
					rec.Fail(t, c, "%s wrote a file that the independent decoder cannot read completely: %v (%d bytes)", dumpArg, derr, len(b))
				}
				loadArg := "--bload=" + bf
				var argvL []string
				if gen.Bool(t, "loadasfile") {
					argvL = placeFile(t, append(spellFlags(t, fl), "--bload"), bf)
				} else {
					argvL = append(spellFlags(t, fl), loadArg)
				}
				gl := runCLI(dir, "", argvL...)
				c.Argvs = append(c.Argvs, argvL)
				if gl.Status != got.Status || gl.Stderr != got.Stderr || !sameButParseStats(gl.Stdout, got.Stdout, fl.s) {
					c.Note = "bload"
					rec.Case(true, harness.Hash(src, strings.Join(argvL, " ")), feats...)
					rec.Fail(t, c, "bcl %v does not reproduce bcl %v:\nstatus %d vs %d\nstdout %q\n    vs %q\nstderr %q\n    vs %q", argvL, argv1, gl.Status, got.Status,
						clip(gl.Stdout, 500), clip(stripPstats(got.Stdout), 500), clip(gl.Stderr, 300), clip(got.Stderr, 300))
				}
				// load and dump in one run, into the file being loaded or into another
				if gen.Chance(t, 40, "loadanddump") {
					bf2 := gen.Pick(t, "bf2", []string{bf, bf, "copy.bcb"})
					argvLD := append(spellFlags(t, fl), "--bload="+bf, "--bdump="+bf2)
					if gen.Bool(t, "dumpfirst") {
						argvLD = append(spellFlags(t, fl), "--bdump="+bf2, "--bload="+bf)
					}
					gld := runCLI(dir, "", argvLD...)
					c.Argvs = append(c.Argvs, argvLD)
					feats = append(feats, "load-and-dump")
					if gld != gl {
						c.Note = "bload+bdump"
						rec.Fail(t, c, "bcl %v does not behave like bcl %v:\nstatus %d vs %d\nstdout %q\n    vs %q\nstderr %q\n    vs %q", argvLD, argvL, gld.Status, gl.Status,
							clip(gld.Stdout, 500), clip(gl.Stdout, 500), clip(gld.Stderr, 300), clip(gl.Stderr, 300))
					}
					b2, rerr2 := os.ReadFile(filepath.Join(dir, bf2))
					f2, derr2 := bc.Decode(b2)
					if rerr2 != nil || derr2 != nil {
						rec.Fail(t, c, "bcl %v left %s unreadable: %v %v (%d bytes)", argvLD, bf2, rerr2, derr2, len(b2))
					}
					if !bytes.Equal(f1.Code, f2.Code) || fmt.Sprint(f1.Consts) != fmt.Sprint(f2.Consts) || fmt.Sprint(f1.Positions) != fmt.Sprint(f2.Positions) || fmt.Sprint(f1.LFs) != fmt.Sprint(f2.LFs) {
						rec.Fail(t, c, "bcl %v wrote a different program into %s than the one it loaded", argvLD, bf2)
					}
				}
			}
		}
		nt := nontrivialArgv && (fl.d || fl.t || fl.r || fl.s) || want.Status != 0 || pair
		if pair {
			feats = append(feats, "dump-load-pair")
		}
		feats = append(feats, fmt.Sprintf("status:%d", want.Status))
		rec.Case(nt, harness.Hash(src, fmt.Sprint(c.Argvs)), feats...)
		if nt {
			rec.Sample(func() any { return map[string]any{"argvs": c.Argvs, "src": clip(src, 200), "status": want.Status} })
		}
	})
}

func TestReplayC18(t *testing.T) { replayOnly(t); TestC18(t) }
