package props

import (
	"bufio"
	"bytes"
	"encoding/json"
	"fmt"
	"io"
	"os"
	"os/exec"
	"strings"
	"syscall"
	"testing"
	"time"

	"github.com/wkhere/bcl"
)

// The sacrificial worker of C06: a panic in the lexer or in ParseFile's
// goroutines cannot be recovered by the caller and kills the process, so
// the property never calls the library in the process that runs rapid. The
// worker is this test binary started with VERIF_WORKER=1; it reads one JSON
// request per line and answers with one JSON line.

type workReq struct {
	Src     []byte `json:"src"`
	Chunks  []int  `json:"chunks"`
	EOFData bool   `json:"eofdata,omitempty"` // the file variants' reader returns io.EOF together with the last data
	FailAt  int    `json:"failat,omitempty"`  // >0: the reader's k-th Read returns an error
	Exec    bool   `json:"exec"`              // the program may be executed (its results stay within the property's memory bound)
}

type workRes struct {
	Calls []string `json:"calls"` // "api: ok" | "api: error" | "api: PANIC ..."
	Panic string   `json:"panic,omitempty"`
}

type smallTarget struct {
	Name string
	A    int
	B    string
}

// Two distinct struct types with one name and one package path (declared in
// different functions): the second has fewer fields than the first, and both
// use tags that the bind-shape inputs contain as keys.
func localTargetWide() any {
	type SmallTarget struct {
		Name string
		P    int    `bcl:"x__y"`
		Q    string `bcl:"a1"`
		R    int    `bcl:"b"`
		A    int
	}
	return &SmallTarget{}
}

func localTargetNarrow() any {
	type SmallTarget struct {
		A int `bcl:"b"`
	}
	return &SmallTarget{}
}

func workerMain() {
	// a runaway allocation must not take the machine down
	var lim syscall.Rlimit
	lim.Cur, lim.Max = 6<<30, 6<<30
	syscall.Setrlimit(syscall.RLIMIT_AS, &lim)
	in := bufio.NewReaderSize(os.Stdin, 1<<20)
	out := bufio.NewWriter(os.Stdout)
	for {
		line, err := in.ReadBytes('\n')
		if len(line) == 0 && err != nil {
			return
		}
		var req workReq
		if json.Unmarshal(line, &req) != nil {
			return
		}
		res := serve(req)
		b, _ := json.Marshal(res)
		out.Write(b)
		out.WriteByte('\n')
		out.Flush()
	}
}

type boundedWriter struct{ n int }

func (b *boundedWriter) Write(p []byte) (int, error) { b.n += len(p); return len(p), nil }

func serve(req workReq) (res workRes) {
	call := func(api string, f func() error) {
		defer func() {
			if r := recover(); r != nil {
				res.Calls = append(res.Calls, fmt.Sprintf("%s: PANIC %v", api, r))
				if res.Panic == "" {
					res.Panic = fmt.Sprintf("%s: %v", api, r)
				}
			}
		}()
		if err := f(); err != nil {
			res.Calls = append(res.Calls, api+": error")
		} else {
			res.Calls = append(res.Calls, api+": ok")
		}
	}
	w := func() []bcl.Option {
		return []bcl.Option{bcl.OptOutput(&boundedWriter{}), bcl.OptLogger(&boundedWriter{})}
	}
	file := func() bcl.FileInput {
		var sc []readStep
		for _, n := range req.Chunks {
			sc = append(sc, readStep{N: n})
		}
		if req.FailAt > 0 {
			for len(sc) < req.FailAt-1 {
				sc = append(sc, readStep{N: 4096})
			}
			sc = append(sc[:req.FailAt-1:req.FailAt-1], readStep{Err: "fail"})
		}
		return &scriptFile{data: append([]byte{}, req.Src...), script: sc, name: "f", eofData: req.EOFData}
	}
	var prog *bcl.Prog
	call("Parse", func() error {
		p, err := bcl.Parse(req.Src, "n", w()...)
		if err == nil {
			prog = p
		}
		return err
	})
	call("ParseFile", func() error { _, err := bcl.ParseFile(file(), w()...); return err })
	if prog != nil {
		var dump bytes.Buffer
		call("Dump", func() error { return prog.Dump(&dump) })
		var loaded *bcl.Prog
		call("LoadProg", func() error {
			p, err := bcl.LoadProg(bytes.NewReader(dump.Bytes()), "n", w()...)
			loaded = p
			return err
		})
		if req.Exec {
			call("Execute", func() error { _, _, err := bcl.Execute(prog, w()...); return err })
			if loaded != nil {
				call("Execute(loaded)", func() error { _, _, err := bcl.Execute(loaded, w()...); return err })
			}
			call("Execute(trace,stats)", func() error {
				_, _, err := bcl.Execute(prog, append(w(), bcl.OptTrace(true), bcl.OptStats(true))...)
				return err
			})
		}
	}
	if req.Exec || prog == nil {
		// a rejected program is never executed, so these are safe for it
		call("Interpret", func() error { _, _, err := bcl.Interpret(req.Src, w()...); return err })
		call("InterpretFile", func() error { _, _, err := bcl.InterpretFile(file(), w()...); return err })
		call("Unmarshal(struct)", func() error { var t smallTarget; return bcl.Unmarshal(req.Src, &t, w()...) })
		call("Unmarshal(slice)", func() error { var t []smallTarget; return bcl.Unmarshal(req.Src, &t, w()...) })
		call("UnmarshalFile", func() error { var t smallTarget; return bcl.UnmarshalFile(file(), &t, w()...) })
		// targets of the wrong nature are errors too, never crashes
		call("Unmarshal(nil *struct)", func() error { var t *smallTarget; return bcl.Unmarshal(req.Src, t, w()...) })
		call("Unmarshal(nil *slice)", func() error { var t *[]smallTarget; return bcl.Unmarshal(req.Src, t, w()...) })
		call("Unmarshal(local type, wide)", func() error { return bcl.Unmarshal(req.Src, localTargetWide(), w()...) })
		call("Unmarshal(local type of the same name, narrow)", func() error { return bcl.Unmarshal(req.Src, localTargetNarrow(), w()...) })
		call("Unmarshal(untyped nil)", func() error { return bcl.Unmarshal(req.Src, nil, w()...) })
		call("Unmarshal(value)", func() error { var t smallTarget; return bcl.Unmarshal(req.Src, t, w()...) })
		call("UnmarshalFile(nil *struct)", func() error { var t *smallTarget; return bcl.UnmarshalFile(file(), t, w()...) })
	}
	return
}

func TestC06Worker(t *testing.T) {
	if os.Getenv("VERIF_WORKER") != "1" {
		t.Skip("worker mode only")
	}
	workerMain()
	os.Exit(0)
}

// worker handle on the parent side
type worker struct {
	cmd    *exec.Cmd
	in     io.WriteCloser
	out    *bufio.Reader
	stderr *tailBuf
	done   chan struct{}
}

type tailBuf struct {
	b []byte
}

func (t *tailBuf) Write(p []byte) (int, error) {
	t.b = append(t.b, p...)
	if len(t.b) > 8192 {
		t.b = t.b[len(t.b)-8192:]
	}
	return len(p), nil
}

func startWorker() *worker {
	cmd := exec.Command(os.Args[0], "-test.run", "^TestC06Worker$")
	cmd.Env = append(os.Environ(), "VERIF_WORKER=1", "VERIF_OUT=", "VERIF_REPLAY=", "GOTRACEBACK=single")
	in, err := cmd.StdinPipe()
	must(err)
	outp, err := cmd.StdoutPipe()
	must(err)
	w := &worker{cmd: cmd, in: in, out: bufio.NewReaderSize(outp, 1<<20), stderr: &tailBuf{}, done: make(chan struct{})}
	cmd.Stderr = w.stderr
	must(cmd.Start())
	return w
}

func (w *worker) kill() {
	w.in.Close()
	w.cmd.Process.Kill()
	w.cmd.Wait()
}

type workOutcome struct {
	res    workRes
	died   bool
	hung   bool
	stderr string
}

// ask sends one request and waits for the answer under a watchdog.
func (w *worker) ask(req workReq, d time.Duration) workOutcome {
	b, _ := json.Marshal(req)
	b = append(b, '\n')
	type ans struct {
		line []byte
		err  error
	}
	ch := make(chan ans, 1)
	go func() {
		if _, err := w.in.Write(b); err != nil {
			ch <- ans{nil, err}
			return
		}
		line, err := w.out.ReadBytes('\n')
		ch <- ans{line, err}
	}()
	select {
	case a := <-ch:
		if a.err != nil || len(a.line) == 0 {
			w.cmd.Wait()
			return workOutcome{died: true, stderr: string(w.stderr.b)}
		}
		var res workRes
		if json.Unmarshal(a.line, &res) != nil {
			return workOutcome{died: true, stderr: "unparsable answer: " + string(a.line)}
		}
		return workOutcome{res: res}
	case <-time.After(d):
		w.kill()
		return workOutcome{hung: true, stderr: string(w.stderr.b)}
	}
}

// firstLines keeps the informative head of a crash log.
func firstLines(s string, n int) string {
	l := strings.Split(s, "\n")
	if len(l) > n {
		l = l[:n]
	}
	return strings.Join(l, "\n")
}
