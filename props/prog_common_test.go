package props

import (
	"os"
	"testing"

	"pgregory.net/rapid"

	"verif/gen"
	"verif/harness"
	"verif/ref"
)

// caseProg is the replayable form of a generated program: the tree and the
// layout it was rendered with.
type caseProg struct {
	Prog   *gen.Prog      `json:"prog"`
	Layout gen.Layout     `json:"layout"`
	Src    string         `json:"src"`
	Feat   map[string]int `json:"feat,omitempty"`
}

func (c *caseProg) rerender() *gen.Rendered {
	r := gen.RenderProg(c.Prog)
	c.Src, _ = renderChecked(r.Toks, c.Layout)
	return r
}

func genCaseProg(t *rapid.T, cfg gen.ProgCfg, lo gen.LayoutOpts) caseProg {
	p, feat := gen.GenProg(t, cfg)
	if gen.Chance(t, 3, "special") {
		var tag string
		p, tag = gen.SpecialProg(t)
		feat = map[string]int{tag: 1}
	}
	r := gen.RenderProg(p)
	lay := gen.GenLayout(t, r.Toks, lo)
	src, _ := renderChecked(r.Toks, lay)
	return caseProg{Prog: p, Layout: lay, Src: src, Feat: feat}
}

// progShape collects structural facts about a program for the non-trivial
// rules and histograms.
type progShape struct {
	maxDepth     int
	nested       int
	reassigned   bool
	repeatedKey  bool
	varAndField  bool
	localsAfter  bool // a var declared after a nested block closed, in a block
	binds        int
	defs         int
	topKeys      map[string]int
	embeddedAsg  bool
	stmts        int
	bindAfterDef bool // a block of a bound type defined after the bind
}

func shapeOf(p *gen.Prog) *progShape {
	s := &progShape{topKeys: map[string]int{}}
	bound := map[string]bool{}
	var walk func(body []*gen.Stmt, depth int)
	walk = func(body []*gen.Stmt, depth int) {
		if depth > s.maxDepth {
			s.maxDepth = depth
		}
		assigned := map[string]bool{}
		vars := map[string]bool{}
		sawBlock := false
		for _, st := range body {
			s.stmts++
			switch st.K {
			case "var":
				vars[st.Name] = true
				if assigned[st.Name] {
					s.varAndField = true
				}
				if sawBlock && depth > 0 {
					s.localsAfter = true
				}
				if st.E != nil && hasAsg(st.E) {
					s.embeddedAsg = true
				}
			case "eval", "expr", "print":
				e := st.E
				if e.K == "asg" {
					if assigned[e.T] {
						s.reassigned = true
					}
					assigned[e.T] = true
					if hasAsg(e.A) {
						s.embeddedAsg = true
					}
				} else if hasAsg(e) {
					s.embeddedAsg = true
				}
			case "def":
				s.defs++
				sawBlock = true
				if depth > 0 {
					s.nested++
				} else {
					k := st.Name + "|" + st.BNameLit
					s.topKeys[k]++
					if s.topKeys[k] > 1 {
						s.repeatedKey = true
					}
					if bound[st.Name] {
						s.bindAfterDef = true
					}
				}
				walk(st.Body, depth+1)
			case "bind":
				s.binds++
				bound[st.Name] = true
			}
		}
	}
	walk(p.Stmts, 0)
	return s
}

func outcomeFeat(o *ref.Outcome) string {
	switch {
	case o.Compile != nil:
		return "outcome:compile-" + o.Compile.Class
	case o.RT != nil:
		return "outcome:rt-" + o.RT.Class
	}
	return "outcome:ok"
}

// runProgProperty is the common body of the R1-based properties.
func runProgProperty(t *testing.T, pid string, gen1 func(*rapid.T) caseProg,
	nontrivial func(c caseProg, o *ref.Outcome, sh *progShape) bool,
	extra func(c caseProg, o *ref.Outcome, a actual) string) {
	rec := harness.Get(pid)
	check := func(c caseProg) (string, bool, []string) {
		o := ref.Run(c.Prog)
		sh := shapeOf(c.Prog)
		feats := append(featList(c.Feat, "gen:"), outcomeFeat(o))
		if o.Unspecified != "" {
			return "", false, append(feats, "skipped:"+o.Unspecified)
		}
		a := interpret(c.Src)
		viol := compareOutcome(o, a)
		if viol == "" && extra != nil {
			viol = extra(c, o, a)
		}
		return viol, nontrivial(c, o, sh), feats
	}
	if path := os.Getenv("VERIF_REPLAY"); path != "" {
		var c caseProg
		must(harness.LoadReplay(path, &c))
		c.rerender()
		if viol, _, _ := check(c); viol != "" {
			rec.Fail(t, c, "%s\nsource:\n%s", viol, c.Src)
		}
		return
	}
	rapid.Check(t, func(t *rapid.T) {
		c := gen1(t)
		viol, nt, feats := check(c)
		rec.Case(nt, harness.Hash(c.Src), feats...)
		if nt {
			rec.Sample(func() any { return map[string]any{"src": c.Src} })
		}
		if viol != "" {
			rec.Fail(t, c, "%s\nsource:\n%s", viol, c.Src)
		}
	})
}
