package props

import (
	"fmt"
	"os"
	"strings"
	"testing"

	"pgregory.net/rapid"

	"verif/gen"
	"verif/harness"
	"verif/ref"
)

// C01 — expression evaluation conforms to the language definition.

type caseC01 struct {
	Prog   *gen.Prog  `json:"prog"`
	Layout gen.Layout `json:"layout"`
	Src    string     `json:"src"`
	Mode   string     `json:"mode"`
	// the case is the long-operand family within a few bytes of the largest
	// encodable jump: the compiler may refuse it ("jump too long"), which is
	// an implementation limit, not an evaluation result
	NearLimit bool `json:"nearlimit,omitempty"`
	Nested    int  `json:"nested,omitempty"` // 1: a nested block precedes the expression in the block body
}

// exprStats walks an expression for the non-trivial rule.
type exprStats struct {
	depth     int
	precs     map[int]bool
	scWithAsg bool
	fancyLit  bool
	ops       map[string]bool
	hasPar    bool
	hasAsg    bool
}

func hasAsg(e *gen.Expr) bool {
	if e == nil {
		return false
	}
	return e.K == "asg" || hasAsg(e.A) || hasAsg(e.B)
}

func (s *exprStats) walk(e *gen.Expr, d int) {
	if e == nil {
		return
	}
	if d > s.depth {
		s.depth = d
	}
	switch e.K {
	case "bin":
		s.precs[gen.BinPrec(e.T)] = true
		s.ops[e.T] = true
	case "and", "or":
		s.precs[e.Prec()] = true
		s.ops[e.K] = true
		if hasAsg(e.B) {
			s.scWithAsg = true
		}
	case "not", "neg", "pos":
		s.precs[e.Prec()] = true
		s.ops[e.K] = true
	case "asg":
		s.hasAsg = true
		s.precs[gen.PAsg] = true
	case "par":
		s.hasPar = true
		s.walk(e.A, d)
		return
	case "int":
		if len(e.T) > 1 && e.T[0] == '0' {
			s.fancyLit = true
		}
	case "float":
		if strings.ContainsAny(e.T, "eE") {
			s.fancyLit = true
		}
	case "str":
		if strings.Contains(e.T, `\`) {
			s.fancyLit = true
		}
	}
	s.walk(e.A, d+1)
	s.walk(e.B, d+1)
}

// nestedBefore is 1 when the case being generated has a nested block in
// front of the expression under test (shifts its index in the block body).
var nestedBefore int

func genC01(t *rapid.T) caseC01 {
	nestedBefore = 0
	cfg := gen.DefaultCfg()
	cfg.ExprDepth = 6
	if thorough() {
		cfg.ExprDepth = 9
	}
	cfg.PWild = 12
	cfg.PEmbedAsg = 12
	cfg.PPar = gen.Pick(t, "ppar", []int{0, 0, 15, 40})
	g := &gen.PG{T: t, C: cfg, Feat: map[string]int{}}
	gen.PGInit(g)

	var top []*gen.Stmt
	// 15%: unrelated declarations in front, so that the variables and the
	// literals of the expression get arbitrary slots and constant indices
	// (an instruction's operand byte then takes every small value, also those
	// that coincide with an opcode)
	if gen.Chance(t, 15, "prelude") {
		top = append(top, gen.Prelude(t)...)
	}
	// variables of every dynamic type
	vnames := []string{"a", "b", "c"}
	for _, n := range vnames {
		ty := g.PickType()
		top = append(top, &gen.Stmt{K: "var", Name: n, E: g.Literal(ty)})
		g.DeclareVar(n, ty)
	}
	blk := &gen.Stmt{K: "def", Name: "t", HasBName: true, BNameLit: `"n"`}
	g.OpenBlock("t")
	for _, n := range []string{"d", "e"} {
		ty := g.PickType()
		blk.Body = append(blk.Body, &gen.Stmt{K: "expr", E: &gen.Expr{K: "asg", T: n, A: g.Literal(ty)}})
		g.SetType(n, ty)
	}
	if gen.Chance(t, 30, "nestedbefore") {
		// a nested block that assigns and reads fields of the same names just
		// before: the operands of the expression are the outer block's fields
		inner := &gen.Stmt{K: "def", Name: "u"}
		for _, n := range []string{"d", "e"} {
			if gen.Bool(t, "shadowfield") {
				inner.Body = append(inner.Body, &gen.Stmt{K: "expr", E: &gen.Expr{K: "asg", T: n, A: g.Literal(g.PickType())}})
			}
		}
		inner.Body = append(inner.Body, &gen.Stmt{K: "print", E: &gen.Expr{K: "id", T: gen.Pick(t, "lastread", []string{"d", "e"})}})
		blk.Body = append(blk.Body, inner)
		nestedBefore = 1
	}
	e := g.Expr("?", cfg.ExprDepth)
	longOp := ""
	nearLimit := false
	if gen.Chance(t, 2, "longoperand") {
		// a short-circuit operator over an operand of hundreds or thousands
		// of bytes of code (jump distances beyond one byte), skipped or taken
		op := gen.Pick(t, "scop", []string{"and", "or"})
		longOp = op
		terms := gen.Pick(t, "terms", []int{100, 127, 128, 129, 200, 1000, 5000})
		if gen.Chance(t, 8, "nearlimit") {
			// jump distances within a few bytes of the largest encodable one
			terms = 32767 - gen.Uniform(t, 12, "below")
			nearLimit = true
		}
		e = gen.JumpLimitExpr(op, gen.Uniform(t, 5, "prefix"), terms)
		if gen.Bool(t, "taken") {
			// make the left operand let the right one be evaluated
			if op == "and" {
				e.A = &gen.Expr{K: "int", T: "7"}
			} else {
				e.A = &gen.Expr{K: "nil"}
			}
		} else if gen.Bool(t, "valueleft") {
			if op == "and" {
				e.A = &gen.Expr{K: "int", T: "0"}
			} else {
				e.A = &gen.Expr{K: "int", T: "1000"}
			}
		}
	}
	if longOp != "" {
		// in one of six contexts (operand of the other operator, a chain, under not)
		e = gen.WrapShortCircuit(e, longOp, gen.Uniform(t, 6, "wrap"))
	}
	mode := gen.Pick(t, "mode", []string{"print", "var", "field"})
	switch mode {
	case "print":
		blk.Body = append(blk.Body, &gen.Stmt{K: "print", E: e})
	case "var":
		blk.Body = append(blk.Body, &gen.Stmt{K: "var", Name: "v", E: e},
			&gen.Stmt{K: "print", E: &gen.Expr{K: "id", T: "v"}})
	case "field":
		blk.Body = append(blk.Body, &gen.Stmt{K: "expr", E: &gen.Expr{K: "asg", T: "f", A: e}})
	}
	// show the state every variable ended in (side effects of skipped or
	// executed embedded assignments)
	for _, n := range vnames {
		blk.Body = append(blk.Body, &gen.Stmt{K: "print", E: &gen.Expr{K: "id", T: n}})
	}
	top = append(top, blk)
	p := &gen.Prog{Stmts: top}
	r := gen.RenderProg(p)
	lay := gen.GenLayout(t, r.Toks, gen.LayoutOpts{Plain: 85})
	src, _ := renderChecked(r.Toks, lay)
	return caseC01{Prog: p, Layout: lay, Src: src, Mode: mode, NearLimit: nearLimit, Nested: nestedBefore}
}

// mainExpr finds the expression under test again (for the statistics).
func (c caseC01) mainExpr() *gen.Expr {
	blk := c.Prog.Stmts[len(c.Prog.Stmts)-1]
	s := blk.Body[2+c.Nested]
	if c.Mode == "field" {
		return s.E.A
	}
	return s.E
}

func checkC01(c caseC01) (viol string, nontrivial bool, feats []string) {
	o := ref.Run(c.Prog)
	if o.Compile != nil {
		panic("HARNESS-ERROR: C01 generated a statically invalid program: " + o.Compile.Class + "\n" + c.Src)
	}
	st := &exprStats{precs: map[int]bool{}, ops: map[string]bool{}}
	st.walk(c.mainExpr(), 0)
	nontrivial = st.depth >= 2 && len(st.precs) >= 2 || st.scWithAsg || st.fancyLit
	feats = append(feats, "mode:"+c.Mode, fmt.Sprintf("depth:%d", st.depth))
	for op := range st.ops {
		feats = append(feats, "op:"+op)
	}
	if st.hasPar {
		feats = append(feats, "redundant-parens")
	}
	if st.scWithAsg {
		feats = append(feats, "shortcircuit-over-assignment")
	}
	if o.Unspecified != "" {
		return "", false, append(feats, "skipped:"+o.Unspecified)
	}
	if o.RT != nil {
		feats = append(feats, "outcome:rt-"+o.RT.Class)
	} else {
		feats = append(feats, "outcome:ok")
	}
	a := interpret(c.Src)
	if c.NearLimit && a.Err != nil && !isRuntimeErr(a.Err) {
		return "", false, append(feats, "skipped:jump-limit-exceeded")
	}
	return compareOutcome(o, a), nontrivial, feats
}

func TestC01(t *testing.T) {
	rec := harness.Get("C01")
	rapid.Check(t, func(t *rapid.T) {
		c := genC01(t)
		viol, nt, feats := checkC01(c)
		rec.Case(nt, harness.Hash(c.Src), feats...)
		if nt {
			rec.Sample(func() any { return map[string]any{"src": c.Src, "mode": c.Mode} })
		}
		if viol != "" {
			rec.Fail(t, c, "%s\nsource:\n%s", viol, c.Src)
		}
	})
}

func TestReplayC01(t *testing.T) {
	path := os.Getenv("VERIF_REPLAY")
	if path == "" {
		t.Skip("no VERIF_REPLAY")
	}
	var c caseC01
	must(harness.LoadReplay(path, &c))
	// the source is re-rendered from the tree, the oracle recomputed
	r := gen.RenderProg(c.Prog)
	c.Src, _ = renderChecked(r.Toks, c.Layout)
	if viol, _, _ := checkC01(c); viol != "" {
		harness.Get("C01").Fail(t, c, "%s\nsource:\n%s", viol, c.Src)
	}
}

// TestC01Sweeps enumerates the operand-value sub-space for expressions: for
// every k in 0..300 the program gen.ExprSweepProg(k), whose variables sit in
// slots k.. and whose literals have constant indices k.., is compared with
// R1 (an operand byte then takes every value, also the values of opcodes).
func TestC01Sweeps(t *testing.T) {
	if !firstShard() || replayPath() != "" {
		t.Skip("runs in the first shard only")
	}
	rec := harness.Get("C01")
	rec.SetScope("sweeps")
	n := 0
	for k := 0; k <= 300; k++ {
		p := gen.ExprSweepProg(k)
		r := gen.RenderProg(p)
		lay := gen.PlainLayout(r.Toks)
		src, _ := renderChecked(r.Toks, lay)
		n++
		if viol := compareOutcome(ref.Run(p), interpret(src)); viol != "" {
			rec.Fail(t, caseC01{Prog: p, Layout: lay, Src: src, Mode: "sweep"}, "expression sweep k=%d: %s\nsource (tail):\n%s", k, viol, tail(src, 500))
		}
	}
	rec.Count("sweep:expression-operand-value-programs", n)
	rec.SetExtra("exhaustive_subspace", "operand values 0..300 x unary chains, short circuits and comparisons on variables and fresh literals (gen.ExprSweepProg), each compared with R1")
}
