package props

import (
	"os"
	"regexp"
	"strconv"
	"strings"
	"testing"

	"verif/gen"
	"verif/ref"
)

// Self-validation of the reference models against the repository's own
// table of about 400 (source, expected output | error) rows
// (testapi_test.go, generated from test.py): source -> own tokenizer -> R2
// (accept/reject, tree) -> R1 (output, error class). A disagreement is a
// bug in the models (or a finding); it is not part of any check.
func TestModelsAgainstRepoTable(t *testing.T) {
	b, err := os.ReadFile("/repo/testapi_test.go")
	if err != nil {
		t.Skip("repository table not available")
	}
	str := "(\"(?:[^\"\\\\]|\\\\.)*\"|`[^`]*`)"
	rowRe := regexp.MustCompile("(?m)^\\t\\t\\{`([^`]*)`, `([^`]*)`, " + str + ", (true|false), (true|false), " + str + "\\},$")
	rows := rowRe.FindAllStringSubmatch(string(b), -1)
	if len(rows) < 300 {
		t.Fatalf("only %d rows recognised in the table", len(rows))
	}
	checked, skipped := 0, 0
	for _, r := range rows {
		name, input := r[1], r[2]
		output, _ := strconv.Unquote(r[3])
		errWanted := r[5] == "true"
		errMatch, _ := strconv.Unquote(r[6])
		tp, lerr := gen.Tokenize(input)
		if lerr != nil {
			if !errWanted {
				t.Errorf("row %s: own tokenizer rejects %q (%v), the table expects success", name, input, lerr)
			}
			checked++
			continue
		}
		toks := make([]gen.Tok, len(tp))
		for i, x := range tp {
			toks[i] = x.Tok
		}
		prog, v := ref.ParseTokens(toks)
		if v.Unspecified != "" {
			skipped++
			continue
		}
		isRuntime := strings.Contains(errMatch, "runtime error") || (errWanted && !strings.Contains(errMatch, "line ") && !strings.Contains(errMatch, "combined errors"))
		if !v.Accept {
			if !errWanted {
				t.Errorf("row %s: R2 rejects %q (%s at token %d), the table expects success", name, input, v.Class, v.FailTok)
			}
			checked++
			continue
		}
		o := ref.Run(prog)
		if o.Unspecified != "" {
			skipped++
			continue
		}
		if o.Compile != nil {
			t.Errorf("row %s: R2 accepts, R1 has compile error %s", name, o.Compile.Class)
			continue
		}
		checked++
		switch {
		case errWanted && o.RT == nil:
			if isRuntime || true {
				t.Errorf("row %s: %q: the table expects an error (%q), the models predict success with output %q", name, input, errMatch, o.Output())
			}
		case !errWanted && o.RT != nil:
			t.Errorf("row %s: %q: the table expects success, R1 predicts runtime error %s %v", name, input, o.RT.Class, o.RT.Contains)
		case !errWanted && r[4] == "true":
			// a disassembly row: not program output
		case !errWanted:
			want := output
			if got := strings.TrimRight(o.Output(), "\n"); got != want {
				t.Errorf("row %s: %q: R1 output %q, table %q", name, input, got, want)
			}
		}
	}
	t.Logf("%d rows, %d checked, %d skipped (unspecified)", len(rows), checked, skipped)
}
