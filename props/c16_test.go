package props

import (
	"bytes"
	"encoding/hex"
	"fmt"
	"io"
	"os"
	"os/exec"
	"path/filepath"
	"reflect"
	"regexp"
	"strings"
	"testing"
	"time"

	"pgregory.net/rapid"

	"github.com/wkhere/bcl"

	"verif/bc"
	"verif/gen"
	"verif/harness"
	"verif/ref"
)

// C16 — same input, same outcome.

// targets that another process can rebuild by name
type C16Tgt struct {
	Name    string
	FooBar  int
	MaxSize string
	Ratio   float64
	On      bool
	C16In   C16In // nested blocks 'def c16_in ...': the key must fold to the field and to the type name
}
type C16In struct {
	Name string
	A    int
	BB   string `bcl:"b_tag"`
}

func newTarget16(kind string) any {
	switch kind {
	case "struct":
		return &C16Tgt{}
	case "slice":
		return &[]C16Tgt{{Name: "junk", FooBar: 7}}
	}
	return nil
}

type caseC16 struct {
	Kind   string     `json:"kind"` // prog | unmarshal | bytecode
	Src    string     `json:"src,omitempty"`
	Target string     `json:"target,omitempty"`
	File   []byte     `json:"file,omitempty"`
	Input  *inputSpec `json:"input,omitempty"`
	Script []readStep `json:"script,omitempty"`
}

// digest16 performs the calls of one case once and digests everything
// observable.
func digest16(c caseC16) string { return strings.Join(observe16(c), "\x00") }

// firstDiff names the first observable that differs between two outcomes.
func firstDiff(a, b string) string {
	x, y := strings.Split(a, "\x00"), strings.Split(b, "\x00")
	for i := 0; i < len(x) && i < len(y); i++ {
		if x[i] != y[i] {
			return fmt.Sprintf("%s\n  vs\n%s", clip(x[i], 400), clip(y[i], 400))
		}
	}
	return fmt.Sprintf("%d vs %d observables", len(x), len(y))
}

func observe16(c caseC16) (obs []string) {
	put := func(label string, v any) { obs = append(obs, fmt.Sprintf("%s=%v", label, v)) }
	defer func() {
		if r := recover(); r != nil {
			put("panic", r)
		}
	}()
	switch c.Kind {
	case "prog":
		var out, log bytes.Buffer
		p, err := bcl.Parse([]byte(c.Src), "n", bcl.OptOutput(&out), bcl.OptLogger(&log), bcl.OptDisasm(true), bcl.OptStats(true))
		put("perr", errStr(err))
		put("plog", log.String())
		put("pout", out.String())
		if err == nil {
			d0, _, _ := dumpOf(p)
			put("dump", hex.EncodeToString(d0))
			// a program is not altered by calls made after it was returned
			bcl.Parse([]byte("\n\n\n\nprint 1\n\n\n# other\ndef o {\n}\n"), "o", bcl.OptOutput(io.Discard), bcl.OptLogger(io.Discard))
			bcl.Parse([]byte("print )\n\nprint )"), "o", bcl.OptOutput(io.Discard), bcl.OptLogger(io.Discard))
			if dx, _, _ := dumpOf(p); !bytes.Equal(dx, d0) {
				put("prog-altered-by-a-later-call", true)
			}
			// the caller may reuse its input buffer after the call returned
			copy(sharedInput[:], c.Src)
			if len(c.Src) <= len(sharedInput) {
				var o2, l2 bytes.Buffer
				pb, errb := bcl.Parse(sharedInput[:len(c.Src)], "n", bcl.OptOutput(&o2), bcl.OptLogger(&l2))
				for i := range sharedInput[:len(c.Src)] {
					sharedInput[i] = 'Z'
				}
				if errb == nil {
					if db, _, _ := dumpOf(pb); !bytes.Equal(db, d0) {
						put("input-buffer-reuse-changes-the-program", true)
					}
				}
			}
			out.Reset()
			a := executeWith(p, &out, &log, bcl.OptStats(true))
			put("out", a.Out)
			put("log", a.Log)
			put("err", errStr(a.Err))
			put("blocks", fmt.Sprintf("%#v", a.Blocks))
			put("binding", fmt.Sprintf("%#v", a.Binding))
			put("panic", a.Panic)
			// executing does not alter the program
			d1, _, _ := dumpOf(p)
			if !bytes.Equal(d0, d1) {
				put("dump-changed-by-execute", true)
			}
			out.Reset()
			log.Reset()
			a2 := executeWith(p, &out, &log, bcl.OptStats(true))
			put("out2", a2.Out)
			put("err2", errStr(a2.Err))
			put("blocks2", fmt.Sprintf("%#v", a2.Blocks))
			// executing a Prog does not alter it: the second run is the first
			if errStr(a.Err) != errStr(a2.Err) || a.Log != a2.Log || fmt.Sprintf("%#v", a.Blocks) != fmt.Sprintf("%#v", a2.Blocks) ||
				strings.TrimSuffix(a.Out, tailStats(a.Out)) != strings.TrimSuffix(a2.Out, tailStats(a2.Out)) {
				put("second-execute-differs", fmt.Sprintf("first: err=%q log=%q; second: err=%q log=%q", errStr(a.Err), a.Log, errStr(a2.Err), a2.Log))
			}
		}
		if len(c.Script) > 0 {
			fr := parseFileWatch(&scriptFile{data: []byte(c.Src), script: c.Script, name: "n"}, timeout20)
			put("ferr", errStr(fr.err))
			put("flog", fr.log)
			put("fdump", hex.EncodeToString(fr.dump))
			put("ftimeout", fr.timedOut)
		}
	case "file-fault":
		// an input with an early lexical failure whose reader fails later: the
		// returned error must not depend on the schedule
		var log lockedBuf
		f := &scriptFile{data: []byte(c.Input.source()), script: c.Script, name: "n"}
		// a slow medium: every read after the first takes a moment, so that
		// the parser has usually finished with the failing first page by the
		// time the next read returns (the schedule the outcome must not depend on)
		f.onRead = func(k int) {
			if k >= 1 && k <= 3 {
				time.Sleep(150 * time.Microsecond)
			}
		}
		done := make(chan error, 1)
		go func() {
			_, err := bcl.ParseFile(f, bcl.OptLogger(&log), bcl.OptOutput(io.Discard))
			done <- err
		}()
		select {
		case err := <-done:
			put("err", errStr(err))
			put("log", log.String())
		case <-time.After(timeout20):
			put("timeout", true)
		}
	case "history":
		// a struct type nobody has bound before (so that anything remembered
		// per type starts empty), the input X, then a sibling input W that
		// differs only in how the keys are spelled, then X again: what X gives
		// must not depend on W having been bound in between
		historySerial++
		T := reflect.StructOf([]reflect.StructField{
			{Name: "Name", Type: reflect.TypeOf("")},
			{Name: "FooBar", Type: reflect.TypeOf(0), Tag: `bcl:"foo_tag"`},
			{Name: "Plain", Type: reflect.TypeOf("")},
			{Name: "MaxSize", Type: reflect.TypeOf(0)},
			{Name: fmt.Sprintf("Pad%d", historySerial), Type: reflect.TypeOf(false)},
		})
		run := func(src string) string {
			tgt := reflect.New(T)
			err := bcl.Unmarshal([]byte(src), tgt.Interface(), bcl.OptOutput(io.Discard), bcl.OptLogger(io.Discard))
			return fmt.Sprintf("%v %+v", errStr(err), tgt.Elem().Interface())
		}
		x1 := run(c.Src)
		w := run(c.Target) // the sibling input travels in Target
		x2 := run(c.Src)
		put("x", stripPad(x1))
		put("w", stripPad(w))
		if x1 != x2 {
			put("outcome-depends-on-an-earlier-call", fmt.Sprintf("before: %s; after binding a sibling input: %s", x1, x2))
		}
	case "unmarshal":
		tgt := newTarget16(c.Target)
		var out, log bytes.Buffer
		err := bcl.Unmarshal([]byte(c.Src), tgt, bcl.OptOutput(&out), bcl.OptLogger(&log))
		put("err", errStr(err))
		put("target", fmt.Sprintf("%+v", reflect.ValueOf(tgt).Elem().Interface()))
		put("out", out.String())
		put("log", log.String())
	case "bytecode":
		var out, log bytes.Buffer
		p, err, pan := loadProg(bytes.NewReader(c.File), "n", bcl.OptOutput(&out), bcl.OptLogger(&log))
		put("lerr", errStr(err))
		put("lpanic", pan)
		if err == nil && pan == nil {
			a := executeWith(p, &out, &log)
			put("out", a.Out)
			put("err", errStr(a.Err))
			put("blocks", fmt.Sprintf("%#v", a.Blocks))
			put("panic", fmt.Sprint(a.Panic))
		}
	}
	return obs
}

var sharedInput [1 << 16]byte

var historySerial int

var padRe = regexp.MustCompile(`Pad\d+`)

func stripPad(s string) string { return padRe.ReplaceAllString(s, "Pad") }

// tailStats cuts nothing: statistics are part of both runs alike.
func tailStats(string) string { return "" }

// unrelated work between repeats (history independence)
func noise16(i int) {
	src := fmt.Sprintf("var a = %d\nvar b = \"s%d\"\ndef q \"n\" { x = a + %d; y = b; z = a * 3 }\nbind q -> struct\nprint a, b\n", i, i, i)
	_ = src
	var out, log bytes.Buffer
	bcl.Interpret([]byte(fmt.Sprintf("var a = %d\nvar b = \"s%d\"\ndef q \"n\" { x = a + %d; y = b; var c = 1.5; z = c*a }\nbind q -> struct\nprint a + a + a + a + a\nprint b\n", i, i, i)),
		bcl.OptOutput(&out), bcl.OptLogger(&log))
	var tgt struct {
		Name string
		X    int
		Y    string
		Z    float64
	}
	bcl.Bind(&tgt, bcl.StructBinding{Value: bcl.Block{Type: "q", Name: "n", Fields: map[string]any{"x": i, "y": "v", "z": 2.5}}})
}

// deep16 runs, once per program case, the checks that look at one Prog and
// its results over a longer history: what a call returned is not changed by
// later calls, and two traced runs of one Prog print the same trace.
func deep16(c caseC16) (viol string) {
	if c.Kind != "prog" {
		return ""
	}
	defer func() {
		if r := recover(); r != nil {
			viol = fmt.Sprintf("panic: %v", r)
		}
	}()
	var out, log bytes.Buffer
	p, err := bcl.Parse([]byte(c.Src), "n", bcl.OptOutput(&out), bcl.OptLogger(&log))
	if err != nil {
		return ""
	}
	a := executeWith(p, &out, &log)
	keptBlocks, keptBinding := fmt.Sprintf("%#v", a.Blocks), fmt.Sprintf("%#v", a.Binding)
	noise16(3)
	bcl.Interpret([]byte("def s { k = 1 }\ndef s \"z\" { k = 2 }\ndef t { k = 3 }\nbind s:last -> slice\nbind t -> slice\nbind s:first -> slice\n"), bcl.OptOutput(io.Discard), bcl.OptLogger(io.Discard))
	if now := fmt.Sprintf("%#v", a.Binding); fmt.Sprintf("%#v", a.Blocks) != keptBlocks || now != keptBinding {
		return fmt.Sprintf("the blocks or the binding a call returned were changed by a later call: binding was %s, is %s", clip(keptBinding, 300), clip(now, 300))
	}
	if len(c.Src) > 20000 {
		return "" // traces of the big-program families run to megabytes
	}
	// the trace goes to the writer the Prog was parsed with, the execution
	// statistics to the writer of the Execute call: both are compared
	var x1, x2 bytes.Buffer
	out.Reset()
	bcl.Execute(p, bcl.OptOutput(&x1), bcl.OptLogger(io.Discard), bcl.OptTrace(true), bcl.OptStats(true))
	t1 := out.String() + "\x00" + x1.String()
	out.Reset()
	bcl.Execute(p, bcl.OptOutput(&x2), bcl.OptLogger(io.Discard), bcl.OptTrace(true), bcl.OptStats(true))
	t2 := out.String() + "\x00" + x2.String()
	if t1 != t2 {
		return "two traced runs of the same Prog print different traces (executing a Prog altered it): " + firstDiff(t1, t2)
	}
	return ""
}

func checkC16(c caseC16, repeats int) string {
	first := digest16(c)
	if i := strings.Index(first, "outcome-depends-on-an-earlier-call="); i >= 0 {
		return "the outcome of a call depends on a call made earlier in the process: " + clip(first[i:], 600)
	}
	if strings.Contains(first, "prog-altered-by-a-later-call=true") {
		return "a Prog returned by Parse dumps differently after other sources were parsed (a later call altered it)"
	}
	if strings.Contains(first, "input-buffer-reuse-changes-the-program=true") {
		return "a program parsed from a buffer that the caller reuses afterwards differs from the same program parsed from a private copy"
	}
	if v := deep16(c); v != "" {
		return v
	}
	if i := strings.Index(first, "second-execute-differs="); i >= 0 {
		return "executing the same Prog a second time gives a different outcome: " + clip(first[i:], 600)
	}
	for i := 1; i < repeats; i++ {
		if i%3 == 1 {
			noise16(i)
		}
		if d := digest16(c); d != first {
			return fmt.Sprintf("repeat %d of the same call gave a different outcome:\n%s", i, firstDiff(first, d))
		}
	}
	return ""
}

var keySpellings = map[string][]string{
	"FooBar":  {"foo_bar", "foobar", "FooBar", "FOO_BAR", "foo__bar", "_foobar", "fooBar_"},
	"MaxSize": {"max_size", "maxsize", "MAXSIZE", "Max_Size"},
	"Ratio":   {"ratio", "RATIO", "r_atio"},
	"On":      {"on", "ON", "o_n"},
}

func lit16(t *rapid.T, field string, faulty bool) string {
	good := map[string][]string{"FooBar": {"1", "2", "3", "40"}, "MaxSize": {`"a"`, `"b"`, `"c"`}, "Ratio": {"1.5", "2.5", "0.25"}, "On": {"true", "false"}}
	bad := map[string][]string{"FooBar": {`"s"`, "1.5", "true", "nil"}, "MaxSize": {"1", "2.5", "nil"}, "Ratio": {"1", `"x"`, "nil"}, "On": {"1", `"t"`, "nil"}}
	if faulty {
		return gen.Pick(t, "badlit", bad[field])
	}
	return gen.Pick(t, "goodlit", good[field])
}

// genUnmarshal16 draws an order-sensitive Unmarshal input.
func genUnmarshal16(t *rapid.T) (caseC16, []string) {
	var sb strings.Builder
	var feats []string
	target := gen.Pick(t, "target", []string{"struct", "slice"})
	nblocks := 1
	pFault, pUnknown := 20, 25
	if target == "slice" {
		nblocks = gen.Int(t, 1, 3, "nblocks")
		if gen.Chance(t, 6, "manyblocks") {
			// a long slice with a few faulty blocks far apart: which error is
			// returned must not depend on how the work is scheduled
			nblocks = gen.Int(t, 64, 200, "manyblocks-n")
			pFault, pUnknown = 1, 1
			feats = append(feats, "many-blocks")
		}
	}
	collide, faults := 0, 0
	for b := 0; b < nblocks; b++ {
		fmt.Fprintf(&sb, "def c16_tgt %s{\n", gen.Pick(t, "bname", []string{"", `"n" `, `"m" `}))
		fields := []string{"FooBar", "MaxSize", "Ratio", "On"}
		for _, f := range fields {
			n := gen.Weighted(t, "nspell", 25, 35, 25, 15) // how many spellings of this field appear
			used := map[string]bool{}
			for i := 0; i < n; i++ {
				sp := gen.Pick(t, "spelling", keySpellings[f])
				if used[sp] {
					continue
				}
				used[sp] = true
				faulty := gen.Chance(t, pFault, "faulty")
				if faulty {
					faults++
				}
				fmt.Fprintf(&sb, "  %s = %s\n", sp, lit16(t, f, faulty))
			}
			if len(used) > 1 {
				collide++
			}
		}
		if gen.Chance(t, pUnknown, "unknownkey") {
			fmt.Fprintf(&sb, "  %s = 1\n", gen.Pick(t, "unk", []string{"zzz", "aaa", "qq_q"}))
			faults++
		}
		// named inner blocks of one type onto one field
		for i, n := 0, gen.Weighted(t, "ninner", 40, 30, 30); i < n; i++ {
			fmt.Fprintf(&sb, "  def c16_in %s{ a = %d; %s = \"v%d\" }\n", []string{`"a" `, `"b" `, ""}[i], i+1,
				gen.Pick(t, "tagspelling", []string{"b_tag", "b_tag", "btag", "B_Tag", "b_tag_", "bb"}), i)
			if i > 0 {
				collide++
			}
		}
		sb.WriteString("}\n")
	}
	if target == "slice" {
		sb.WriteString("bind c16_tgt:all -> slice\n")
	} else {
		sb.WriteString("bind c16_tgt -> struct\n")
	}
	if collide > 0 {
		feats = append(feats, "colliding-keys")
	}
	if faults >= 2 {
		feats = append(feats, "several-faulty-fields")
	}
	return caseC16{Kind: "unmarshal", Src: sb.String(), Target: target}, feats
}

// staleSlotFile: bytecode that reads a local slot it never wrote (nil on a
// fresh machine), after pushing and popping some values.
func staleSlotFile(t *rapid.T) []byte {
	f := &bc.File{Major: 1, Minor: 1, Name: "stale"}
	var code []byte
	code = append(code, bc.GETLOCAL)
	code = bc.PutUvarint(code, uint64(gen.Int(t, 0, 40, "slot")))
	code = append(code, bc.PRINT, bc.RET)
	f.Code = code
	f.Positions = make([]int, len(code))
	return f.Encode()
}

func genC16(t *rapid.T) (caseC16, bool, []string) {
	switch gen.Weighted(t, "kind", 36, 36, 10, 10, 8) {
	case 4:
		spell := map[string][]string{
			"foo_tag": {"foo_tag", "footag", "Foo_Tag", "FOO_TAG", "foo_tag_", "foobar", "foo_bar"},
			"plain":   {"plain", "Plain", "PLAIN", "p_lain", "plain_"},
			"maxsize": {"max_size", "maxsize", "MaxSize", "MAX__SIZE"},
		}
		var x, w strings.Builder
		x.WriteString("def t \"n\" {\n")
		w.WriteString("def t \"n\" {\n")
		for _, k := range []string{"foo_tag", "plain", "maxsize"} {
			if gen.Chance(t, 75, "haskey") {
				val := map[string]string{"foo_tag": "7", "plain": "\"p\"", "maxsize": "3"}[k]
				fmt.Fprintf(&x, "  %s = %s\n", gen.Pick(t, "xspell", spell[k]), val)
				fmt.Fprintf(&w, "  %s = %s\n", spell[k][0], val)
			}
		}
		x.WriteString("}\nbind t -> struct\n")
		w.WriteString("}\nbind t -> struct\n")
		return caseC16{Kind: "history", Src: x.String(), Target: w.String()}, true, []string{"kind:history"}
	case 3:
		in := inputSpec{Lines: gen.Int(t, 600, 3000, "lines"), LexAt: gen.Int(t, 0, 30, "lexline")}
		c := caseC16{Kind: "file-fault", Input: &in}
		// reads of whole pages, a read error some reads after the failure
		for i, n := 0, gen.Int(t, 1, 5, "goodreads"); i < n; i++ {
			c.Script = append(c.Script, readStep{N: 4096})
		}
		c.Script = append(c.Script, readStep{Err: "fail"})
		return c, true, []string{"kind:file-fault"}
	case 0:
		cfg := acceptedCfg(t)
		cfg.PIllegal = 15
		cfg.PDivZero = 20
		feats := []string{"kind:prog"}
		if gen.Chance(t, 15, "foldnames") {
			// names that differ only by case and underscores, and a read of one
			// that is not defined: whatever a diagnostic says about the others
			// must not depend on map order
			cfg.Names = []string{"max_size", "maxSize", "MaxSize", "maxsize", "MAX_SIZE"}
			cfg.PUnknown = 60
			cfg.WAsg, cfg.WVar, cfg.WPrint, cfg.WDef, cfg.WBind = 45, 5, 20, 25, 5
			feats = append(feats, "prog:names-of-one-folding-class")
		}
		p, _ := gen.GenProg(t, cfg)
		o := ref.Run(p)
		if o.Unspecified != "" && o.Unspecified != "comparison with NaN" {
			return caseC16{}, false, []string{"skipped:" + o.Unspecified}
		}
		toks := gen.RenderProg(p).Toks
		nmut := gen.Weighted(t, "nmut", 60, 25, 15)
		for i := 0; i < nmut && len(toks) > 0; i++ {
			toks = gen.GenMutation(t, toks, 10).Apply(toks)
		}
		if nmut > 0 {
			if hasStar(toks) {
				return caseC16{}, false, []string{"skipped:mutant-with-repetition"}
			}
			feats = append(feats, "prog:mutated")
		}
		lay := gen.GenLayout(t, toks, gen.LayoutOpts{Plain: 85})
		if gen.Chance(t, 4, "farright") {
			// positions far down and far to the right (many digits in 'line:column')
			lay.Gaps[0] = strings.Repeat("\n", gen.Pick(t, "down", []int{0, 9, 12, 100})) + lay.Gaps[0]
			// ... from some token on (short positions first, long ones later)
			k := gen.Uniform(t, len(lay.Gaps), "rightat")
			lay.Gaps[k] += strings.Repeat(" ", gen.Pick(t, "right", []int{100, 1200, 3000}))
			feats = append(feats, "prog:wide-positions")
		}
		src, _ := renderChecked(toks, lay)
		c := caseC16{Kind: "prog", Src: src}
		nt := nmut >= 2
		if gen.Chance(t, 40, "viafile") {
			_, c.Script = drawScript(t, len(src))
			if len(boundaries(c.Script, len(src))) >= 1 {
				nt = true
				feats = append(feats, "prog:chunked")
			}
		}
		return c, nt, feats
	case 1:
		c, feats := genUnmarshal16(t)
		return c, len(feats) > 0, append(feats, "kind:unmarshal")
	}
	if gen.Bool(t, "stale") {
		return caseC16{Kind: "bytecode", File: staleSlotFile(t)}, true, []string{"kind:bytecode", "bytecode:reads-unwritten-slot"}
	}
	f, _, _ := bc.Assemble(t)
	return caseC16{Kind: "bytecode", File: f.Encode()}, true, []string{"kind:bytecode", "bytecode:assembled"}
}

func TestC16(t *testing.T) {
	rec := harness.Get("C16")
	if path := replayPath(); path != "" {
		var c caseC16
		must(harness.LoadReplay(path, &c))
		if viol := checkC16(c, 60); viol != "" {
			rec.Fail(t, c, "%s", viol)
		}
		return
	}
	repeats := 12
	if thorough() {
		repeats = 40
	}
	var kept []caseC16
	var keptDigest []string
	rapid.Check(t, func(t *rapid.T) {
		c, nt, feats := genC16(t)
		if c.Kind == "" {
			rec.Case(false, harness.Hash("skip"), feats...)
			return
		}
		viol := checkC16(c, repeats)
		rec.Case(nt, harness.Hash(c.Kind, c.Src, c.File, c.Target, fmt.Sprint(c.Script), fmt.Sprint(c.Input)), feats...)
		if nt {
			rec.Sample(func() any { return map[string]any{"kind": c.Kind, "src": clip(c.Src, 300), "target": c.Target} })
		}
		if viol != "" {
			rec.Fail(t, c, "%s\nkind %s target %s\nsource:\n%s", viol, c.Kind, c.Target, clip(c.Src, 800))
		}
		if len(kept) < 300 && nt {
			kept = append(kept, c)
			keptDigest = append(keptDigest, digest16(c))
		}
	})
	// across fresh processes with different GOMAXPROCS (first shard only)
	if !firstShard() || len(kept) == 0 {
		return
	}
	dir := os.Getenv("VERIF_SCRATCH")
	if dir == "" {
		dir = t.TempDir()
	}
	casesPath := filepath.Join(dir, "c16cases.json")
	b, _ := harness.MarshalSafe(kept, false)
	must(os.WriteFile(casesPath, b, 0o644))
	all := map[string][]string{"in-process": keptDigest}
	for _, gmp := range []string{"1", "2", "16"} {
		outPath := filepath.Join(dir, "c16digest."+gmp+".json")
		cmd := exec.Command(os.Args[0], "-test.run", "^TestC16Digest$")
		cmd.Env = append(os.Environ(), "GOMAXPROCS="+gmp, "VERIF_C16_CASES="+casesPath, "VERIF_C16_OUT="+outPath, "VERIF_OUT=", "VERIF_REPLAY=")
		if out, err := cmd.CombinedOutput(); err != nil {
			panic(fmt.Sprintf("HARNESS-ERROR: digest subprocess failed: %v\n%s", err, out))
		}
		var ds []string
		rb, err := os.ReadFile(outPath)
		must(err)
		must(harness.UnmarshalSafe(rb, &ds))
		all["GOMAXPROCS="+gmp] = ds
	}
	for name, ds := range all {
		for i := range kept {
			if ds[i] != keptDigest[i] {
				rec.SetScope("processes")
				rec.Fail(t, kept[i], "case %d: outcome in a fresh process (%s) differs from the in-process outcome:\n%s\nsource:\n%s", i, name, firstDiff(keptDigest[i], ds[i]), clip(kept[i].Src, 600))
			}
		}
	}
	rec.SetExtra("cases_compared_across_processes", len(kept))
	rec.SetExtra("process_configurations", "in-process, fresh process with GOMAXPROCS=1, 2, 16 (each with its own hash seed)")
}

// TestC16Digest is the fresh-process side of the cross-process comparison.
func TestC16Digest(t *testing.T) {
	in, out := os.Getenv("VERIF_C16_CASES"), os.Getenv("VERIF_C16_OUT")
	if in == "" {
		t.Skip("helper of TestC16")
	}
	b, err := os.ReadFile(in)
	must(err)
	var cases []caseC16
	must(harness.UnmarshalSafe(b, &cases))
	ds := make([]string, len(cases))
	// the outcome must not depend on what was called before: each fresh
	// process evaluates the cases in another order
	order := make([]int, len(cases))
	for i := range order {
		order[i] = i
	}
	switch os.Getenv("GOMAXPROCS") {
	case "2":
		for i, j := 0, len(order)-1; i < j; i, j = i+1, j-1 {
			order[i], order[j] = order[j], order[i]
		}
	case "16":
		for i := range order {
			order[i] = (i*7919 + 13) % len(order)
		}
		seen := map[int]bool{}
		for _, x := range order {
			seen[x] = true
		}
		if len(seen) != len(order) { // not a permutation for this length: fall back
			for i := range order {
				order[i] = (i + len(order)/2) % len(order)
			}
		}
	}
	for _, i := range order {
		ds[i] = digest16(cases[i])
	}
	ob, _ := harness.MarshalSafe(ds, false)
	must(os.WriteFile(out, ob, 0o644))
}

func TestReplayC16(t *testing.T) { replayOnly(t); TestC16(t) }
