package props

import (
	"bytes"
	"errors"
	"fmt"
	"io"
	"sync"
	"time"

	"pgregory.net/rapid"

	"github.com/wkhere/bcl"

	"verif/gen"
)

// readStep is one scripted Read of a FileInput.
type readStep struct {
	N   int    `json:"n"`             // bytes to deliver (capped by the buffer and the data left); 0 = a zero-byte read
	Err string `json:"err,omitempty"` // "" | "eof" (EOF together with the data, only effective on the last data) | "fail" (the sentinel error instead of data)
}

var errSentinel = errors.New("verif: injected read error")

// errSentinelEOF is a read error that wraps io.EOF (as an *fs.PathError from
// a network file system may): an error all the same, by the io.Reader
// contract only io.EOF itself means end of input.
var errSentinelEOF = fmt.Errorf("verif: injected read error: %w", io.EOF)

// scriptFile is a FileInput whose reads follow a script; after the script
// is used up it delivers everything that is left in buffer-sized reads.
type scriptFile struct {
	mu             sync.Mutex
	data           []byte
	script         []readStep
	i              int
	name           string
	closes         int
	reads          int // Read calls
	dataReads      int // Read calls that delivered >= 1 byte
	readAfterClose bool
	readAfterEnd   bool // a Read after a Read returned (0, EOF) or an error
	ended          bool
	sentErr        bool        // the sentinel was actually returned by a Read
	sentWrapped    bool        // ... and it was the one that wraps io.EOF
	delivered      int         // bytes delivered so far
	readEnds       []int       // cumulative bytes delivered after each data-carrying read
	onRead         func(k int) // optional hook, called at the start of Read number k (0-based) without the lock
	onClose        func()
	eofData        bool // every read that delivers the last data returns io.EOF with it
	// racy: Read and Close touch a field without synchronisation, as a plain
	// FileInput may; whoever calls them must order them (only the -race build
	// of C12 sets it)
	racy  bool
	touch int
}

func (f *scriptFile) Name() string { return f.name }

func (f *scriptFile) Close() error {
	if f.racy {
		f.touch++
	}
	f.mu.Lock()
	f.closes++
	h := f.onClose
	f.mu.Unlock()
	if h != nil {
		h()
	}
	return nil
}

func (f *scriptFile) Read(p []byte) (int, error) {
	if f.racy {
		f.touch++
	}
	f.mu.Lock()
	k := f.reads
	f.reads++
	h := f.onRead
	if f.closes > 0 {
		f.readAfterClose = true
	}
	if f.ended {
		f.readAfterEnd = true
	}
	f.mu.Unlock()
	if h != nil {
		h(k)
	}
	f.mu.Lock()
	defer f.mu.Unlock()
	var st readStep
	if f.i < len(f.script) {
		st = f.script[f.i]
		f.i++
	} else {
		st = readStep{N: len(p)}
	}
	if st.Err == "fail" {
		f.ended = true
		f.sentErr = true
		return 0, errSentinel
	}
	if st.Err == "fail-wraps-eof" {
		f.ended = true
		f.sentErr = true
		f.sentWrapped = true
		return 0, errSentinelEOF
	}
	if st.Err == "eofnow" {
		// the input ends here, whatever was left
		f.ended = true
		f.data = nil
		return 0, io.EOF
	}
	if len(f.data) == 0 {
		f.ended = true
		return 0, io.EOF
	}
	n := st.N
	if n > len(p) {
		n = len(p)
	}
	if n > len(f.data) {
		n = len(f.data)
	}
	copy(p, f.data[:n])
	f.data = f.data[n:]
	f.delivered += n
	if n > 0 {
		f.dataReads++
		f.readEnds = append(f.readEnds, f.delivered)
	}
	if len(f.data) == 0 && (st.Err == "eof" || f.eofData) && n > 0 {
		// EOF delivered together with the last data; a following read gives (0, EOF)
		return n, io.EOF
	}
	return n, nil
}

// boundaries lists the offsets at which the reads of a script split data of
// length n (the script is followed by buffer-sized reads).
func boundaries(script []readStep, n int) []int {
	var out []int
	off := 0
	for _, st := range script {
		if st.Err == "fail" || st.Err == "fail-wraps-eof" {
			break
		}
		k := st.N
		if k > 4096 {
			k = 4096
		}
		if off+k >= n {
			return out
		}
		off += k
		if k > 0 {
			out = append(out, off)
		}
	}
	for off+4096 < n {
		off += 4096
		out = append(out, off)
	}
	return out
}

type fileResult struct {
	prog     *bcl.Prog
	err      error
	log, out string
	dump     []byte
	timedOut bool
	pan      any
}

// parseFileWatch runs ParseFile under a watchdog.
func parseFileWatch(f bcl.FileInput, d time.Duration, opts ...bcl.Option) fileResult {
	var out, log lockedBuf
	done := make(chan fileResult, 1)
	go func() {
		var r fileResult
		defer func() {
			if p := recover(); p != nil {
				r.pan = p
			}
			done <- r
		}()
		o := append([]bcl.Option{bcl.OptOutput(&out), bcl.OptLogger(&log)}, opts...)
		r.prog, r.err = bcl.ParseFile(f, o...)
	}()
	select {
	case r := <-done:
		r.log, r.out = log.String(), out.String()
		if r.err == nil && r.pan == nil && r.prog != nil {
			var d bytes.Buffer
			if err := r.prog.Dump(&d); err == nil {
				r.dump = d.Bytes()
			}
		}
		return r
	case <-time.After(d):
		return fileResult{timedOut: true, log: log.String()}
	}
}

// lockedBuf is a bytes.Buffer safe for use from several goroutines.
type lockedBuf struct {
	mu      sync.Mutex
	b       bytes.Buffer
	onWrite func()
}

func (l *lockedBuf) Write(p []byte) (int, error) {
	l.mu.Lock()
	h := l.onWrite
	n, err := l.b.Write(p)
	l.mu.Unlock()
	if h != nil {
		h()
	}
	return n, err
}
func (l *lockedBuf) String() string {
	l.mu.Lock()
	defer l.mu.Unlock()
	return l.b.String()
}

// ---------- inputs with faults ----------

var lexFaults = []string{"@", "$", "!", "! x", "1a", "0x1G", "1.", "1e", "1e+", "1.5x", "2e3q", "1.5\"s\"", "0.5e1\"", "\"abc", "\"a\\", "\"a\\\n", "\"a\"b", "é", "éx", "\u20ac", "\U0001F600", "x\u20ac", "ab\"c\"", "?", "`", "\x00", "\xff", "[", "]", ",", ".", "~", "%", "&", "|", "^", "\xef\xbb\xbf", "\xa0", "\x85", "\xc2"}

// injectLexFault inserts a lexically invalid fragment at a token gap of a
// rendered source. It returns the new source and the gap used.
func injectLexFault(t *rapid.T, src string, pos []gen.TokPos) (string, int, string) {
	g := gen.Uniform(t, len(pos)+1, "faultgap")
	var at int
	switch {
	case len(pos) == 0:
		at = len(src)
	case g == len(pos):
		at = len(src)
	default:
		at = pos[g].Start
		if g == 0 && gen.Bool(t, "atbyte0") {
			at = 0 // the very first bytes of the input
		}
	}
	frag := gen.Pick(t, "lexfault", lexFaults)
	sep := " "
	switch {
	case at == len(src) && at > 0:
		sep = "\n" // the last gap may end in a comment without a line end
	case at == 0:
		sep = ""
	}
	return src[:at] + sep + frag + " " + src[at:], g, frag
}

type srcCase struct {
	Src   string `json:"src"`
	Class string `json:"class"` // valid | syntax | lexical
}

// genSource draws an input of one of the classes with a rich layout.
func genSource(t *rapid.T, cfg gen.ProgCfg, lo gen.LayoutOpts) srcCase {
	p, _ := gen.GenProg(t, cfg)
	toks := gen.RenderProg(p).Toks
	class := []string{"valid", "syntax", "lexical"}[gen.Weighted(t, "srcclass", 45, 30, 25)]
	if class == "syntax" && len(toks) > 0 {
		n := 1 + gen.Weighted(t, "nmut", 70, 20, 10)
		for i := 0; i < n && len(toks) > 0; i++ {
			toks = gen.GenMutation(t, toks, 10).Apply(toks)
		}
	}
	lay := gen.GenLayout(t, toks, lo)
	src, pos := renderChecked(toks, lay)
	if class == "lexical" {
		src, _, _ = injectLexFault(t, src, pos)
	}
	return srcCase{Src: src, Class: class}
}

func (s srcCase) String() string { return fmt.Sprintf("%s: %q", s.Class, clip(s.Src, 200)) }
