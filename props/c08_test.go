package props

import (
	"bytes"
	"fmt"
	"io"
	"regexp"
	"strconv"
	"strings"
	"testing"
	"time"

	"pgregory.net/rapid"

	"github.com/wkhere/bcl"

	"verif/bc"
	"verif/gen"
	"verif/harness"
	"verif/ref"
)

// C08 — diagnostics point at the true source location.

type caseC08 struct {
	Kind   string        `json:"kind"` // compile | lexical | runtime
	Prog   *gen.Prog     `json:"prog,omitempty"`
	Mut    *gen.Mutation `json:"mutation,omitempty"`
	Layout gen.Layout    `json:"layout"`
	Src    string        `json:"src"`
	Script []readStep    `json:"script"`
	Pad    int           `json:"pad"`
	// derived expectations (recomputed on replay)
	firstOff int
	toks     []gen.Tok
}

// srcMap is the harness's own view of a source: newline table and tokens.
type srcMap struct {
	src   string
	nl    []int
	toks  []gen.TokPos
	lex   *gen.LexErr
	endOf map[int]gen.TokPos // token by end offset
}

func newSrcMap(src string) *srcMap {
	m := &srcMap{src: src, endOf: map[int]gen.TokPos{}}
	for i := 0; i < len(src); i++ {
		if src[i] == '\n' {
			m.nl = append(m.nl, i)
		}
	}
	m.toks, m.lex = gen.Tokenize(src)
	for _, tk := range m.toks {
		m.endOf[tk.End] = tk
	}
	return m
}

// offsetOf inverts line:col; ok is false if the pair does not designate a
// position of this source consistently.
func (m *srcMap) offsetOf(line, col int) (int, bool) {
	if line < 1 || line > len(m.nl)+1 || col < 1 {
		return 0, false
	}
	off := col - 1
	if line > 1 {
		off = m.nl[line-2] + col
	}
	if off > len(m.src) {
		return off, false
	}
	// the offset must lie on that line: not beyond the line's own newline + 1
	l, c := bc.LineCol(m.nl, off)
	return off, l == line && c == col
}

var posPrefixRe = regexp.MustCompile(`^line (\d+):(\d+): `)

// checkDiagLine validates one compile diagnostic and returns its offset.
func (m *srcMap) checkDiagLine(line string) (off int, viol string) {
	mm := posPrefixRe.FindStringSubmatch(line)
	if mm == nil {
		return 0, fmt.Sprintf("diagnostic %q does not start with 'line L:C: '", line)
	}
	l, _ := strconv.Atoi(mm[1])
	c, _ := strconv.Atoi(mm[2])
	off, ok := m.offsetOf(l, c)
	if !ok {
		return off, fmt.Sprintf("diagnostic %q: %d:%d is not a position of the source (%d lines, %d bytes)", line, l, c, len(m.nl)+1, len(m.src))
	}
	rest := line[len(mm[0]):]
	switch {
	case strings.HasPrefix(rest, "error at end: "):
		if off != len(m.src) {
			return off, fmt.Sprintf("diagnostic %q says 'at end' but designates offset %d of %d", line, off, len(m.src))
		}
	case strings.HasPrefix(rest, "error at '"):
		tk, isTok := m.endOf[off]
		if !isTok {
			return off, fmt.Sprintf("diagnostic %q designates offset %d, which is not the end of a token", line, off)
		}
		if !strings.HasPrefix(rest, "error at '"+tk.S+"': ") {
			return off, fmt.Sprintf("diagnostic %q quotes a token, but the source text ending at offset %d is %q", line, off, tk.S)
		}
	case strings.HasPrefix(rest, "error: "):
		// lexical failure: no token quoted
	default:
		return off, fmt.Sprintf("diagnostic %q is not of the form 'line L:C: error[ at 'TOK'| at end]: msg'", line)
	}
	return off, ""
}

func logLines(log string) []string {
	var out []string
	for _, l := range strings.Split(log, "\n") {
		if l != "" {
			out = append(out, l)
		}
	}
	return out
}

var rtPosRe = regexp.MustCompile(`^runtime error: line (\d+):(\d+): `)
var warnPosRe = regexp.MustCompile(`^WARNING: line (\d+):(\d+): `)

// checkC08 checks one case through one entry point's result.
func (c *caseC08) expectations() (m *srcMap, r *gen.Rendered, o *ref.Outcome, v ref.Verdict) {
	m = newSrcMap(c.Src)
	switch c.Kind {
	case "runtime":
		r = gen.RenderProg(c.Prog)
		o = ref.Run(c.Prog)
	default:
		v = ref.Recognize(c.toks)
	}
	return
}

func checkC08(c *caseC08) (viol string, nontrivial bool, feats []string) {
	m, r, o, v := c.expectations()
	feats = append(feats, "kind:"+c.Kind)
	interest := -1
	// entry points: Parse(whole), ParseFile(partition)
	whole := parseWhole(c.Src, "n")
	fr := parseFileWatch(&scriptFile{data: []byte(c.Src), script: c.Script, name: "n"}, 20*time.Second)
	if whole.pan != nil || fr.pan != nil || fr.timedOut {
		return fmt.Sprintf("parse panicked or hung: %v %v timeout=%v", whole.pan, fr.pan, fr.timedOut), false, feats
	}
	type entry struct {
		name string
		err  error
		log  string
		dump []byte
	}
	entries := []entry{{"Parse(whole)", whole.err, whole.log, whole.dump}, {"ParseFile(chunked)", fr.err, fr.log, fr.dump}}
	for _, e := range entries {
		switch c.Kind {
		case "compile", "lexical":
			if v.Unspecified != "" {
				return "", false, append(feats, "skipped:"+v.Unspecified)
			}
			var want int
			if c.Kind == "lexical" {
				if m.lex == nil {
					// e.g. an injected opening quote found a closing one in a comment
					return "", false, append(feats, "skipped:injected-lexical-fault-vanished")
				}
				want = m.lex.Off
			} else {
				if v.Accept {
					return "", false, append(feats, "skipped:mutant-still-a-sentence")
				}
				if v.FailTok >= len(m.toks) {
					want = len(c.Src)
				} else {
					want = m.toks[v.FailTok].End
				}
			}
			interest = want
			if e.err == nil {
				return fmt.Sprintf("%s accepts an input with a fault", e.name), false, feats
			}
			lines := logLines(e.log)
			if len(lines) == 0 {
				return fmt.Sprintf("%s: no diagnostic", e.name), false, feats
			}
			sawLex := false
			for k, ln := range lines {
				off, dv := m.checkDiagLine(ln)
				if dv != "" {
					return e.name + ": " + dv, false, feats
				}
				if c.Kind == "compile" && k == 0 && off != want {
					l, cc := bc.LineCol(m.nl, want)
					return fmt.Sprintf("%s: first diagnostic %q designates offset %d; the offending token ends at offset %d (line %d:%d)", e.name, ln, off, want, l, cc), false, feats
				}
				if c.Kind == "lexical" {
					// the fragment may have turned earlier text into tokens that
					// are syntax errors of their own and are reported first (the
					// parser looks one token ahead); but nothing can be located
					// beyond the lexical failure, which ends the parse, and the
					// failure itself must be reported where it is
					if off > want {
						return fmt.Sprintf("%s: diagnostic %q designates offset %d, beyond the lexical failure at offset %d", e.name, ln, off, want), false, feats
					}
					if off == want && strings.Contains(ln, ": error: ") {
						sawLex = true
					}
				}
			}
			if c.Kind == "lexical" && !sawLex {
				l, cc := bc.LineCol(m.nl, want)
				return fmt.Sprintf("%s: no diagnostic designates the lexical failure at offset %d (line %d:%d); log=%q", e.name, want, l, cc, clip(e.log, 400)), false, feats
			}
		case "runtime":
			if o.Unspecified != "" {
				return "", false, append(feats, "skipped:"+o.Unspecified)
			}
			if o.Compile != nil {
				panic("HARNESS-ERROR: runtime case does not compile: " + c.Src)
			}
			if e.err != nil {
				return fmt.Sprintf("%s rejects an accepted program: %v %q", e.name, e.err, e.log), false, feats
			}
			// the stored line table and positions
			f, err := bc.Decode(e.dump)
			if err != nil {
				return fmt.Sprintf("%s: independent decoder rejects the dump: %v", e.name, err), false, feats
			}
			if fmt.Sprint(f.LFs) != fmt.Sprint(m.nl) {
				return fmt.Sprintf("%s: stored line table %s is not the newline offsets %s", e.name, clipInts(f.LFs), clipInts(m.nl)), false, feats
			}
			for i, p := range f.Positions {
				// the end-of-input token ends at len(src)
				if _, ok := m.endOf[p]; !ok && p != len(c.Src) {
					return fmt.Sprintf("%s: position %d of code byte %d is not the end offset of a token", e.name, p, i), false, feats
				}
			}
			// run: directly and after dump/load
			for _, via := range []string{"direct", "dump+load", "disasm+trace", "twice", "after-other-parses", "load-into-used-prog"} {
				var out, log bytes.Buffer
				p, lerr, pan := loadProg(bytes.NewReader(e.dump), "n", optOut(&out), optLog(&log))
				if pan != nil || lerr != nil {
					return fmt.Sprintf("%s: LoadProg failed: %v %v", e.name, pan, lerr), false, feats
				}
				var xopts []bcl.Option
				switch via {
				case "direct":
					// the program object parsed in this process (whole only; the
					// chunked one is exercised through its dump)
					if e.name != "Parse(whole)" {
						continue
					}
					p, _ = bcl.Parse([]byte(c.Src), "n", optOut(&out), optLog(&log))
				case "disasm+trace":
					// listing and trace look positions up too, through the same
					// line table the error positions come from
					if e.name != "Parse(whole)" {
						continue
					}
					p, _ = bcl.Parse([]byte(c.Src), "n", optOut(&out), optLog(&log), bcl.OptDisasm(true))
					out.Reset()
					xopts = []bcl.Option{bcl.OptTrace(true)}
				case "after-other-parses":
					// the program object keeps its own line table whatever is
					// parsed after it
					if e.name != "Parse(whole)" {
						continue
					}
					p, _ = bcl.Parse([]byte(c.Src), "n", optOut(&out), optLog(&log))
					for _, other := range []string{"\n\n\n\nprint 1\n\n\n", "print )\n\n\nprint )\n", strings.Repeat("\n", 50) + "def x {\n}\n", "print 1"} {
						bcl.Parse([]byte(other), "o", bcl.OptOutput(io.Discard), bcl.OptLogger(io.Discard))
					}
					if d2, pan2, err2 := dumpOf(p); pan2 != nil || err2 != nil || !bytes.Equal(d2, e.dump) {
						f2, _ := bc.Decode(d2)
						lfs := "?"
						if f2 != nil {
							lfs = clipInts(f2.LFs)
						}
						return fmt.Sprintf("after parsing other sources, the program's stored line table is %s, the newline offsets of its source are %s (dump changed: %v %v)", lfs, clipInts(m.nl), pan2, err2), false, feats
					}
				case "load-into-used-prog":
					// Prog.Load replaces everything, the line table included,
					// whatever the Prog held before
					used, uerr := bcl.Parse([]byte("\n\n# other\n\nprint 1\n\n\n\ndef o {\n\n}\n"), "o", optOut(&out), optLog(&log))
					if uerr != nil {
						continue
					}
					if lerr := used.Load(bytes.NewReader(e.dump)); lerr != nil {
						return fmt.Sprintf("%s: Load into a used Prog failed: %v", e.name, lerr), false, feats
					}
					out.Reset()
					p = used
				case "twice":
					// a second run of the same program object
					executeWith(p, &out, &log)
					out.Reset()
					log.Reset()
				}
				a := executeWith(p, &out, &log, xopts...)
				if a.Panic != nil {
					return fmt.Sprintf("Execute panicked: %v", a.Panic), false, feats
				}
				if o.RT != nil {
					want := r.Toks
					_ = want
					wantOff := m.toks[o.RT.Tok(r)].End
					interest = wantOff
					if a.Err == nil {
						return fmt.Sprintf("%s/%s: expected runtime error (%s), none", e.name, via, o.RT.Class), false, feats
					}
					mm := rtPosRe.FindStringSubmatch(a.Err.Error())
					if mm == nil {
						return fmt.Sprintf("%s/%s: runtime error %q carries no 'line L:C'", e.name, via, a.Err), false, feats
					}
					l, _ := strconv.Atoi(mm[1])
					cc, _ := strconv.Atoi(mm[2])
					off, ok := m.offsetOf(l, cc)
					if !ok || off != wantOff {
						wl, wc := bc.LineCol(m.nl, wantOff)
						return fmt.Sprintf("%s/%s: runtime error %q; the failing operation (%s) ends at offset %d = line %d:%d", e.name, via, a.Err, o.RT.Class, wantOff, wl, wc), false, feats
					}
				} else if a.Err != nil {
					return fmt.Sprintf("%s/%s: unexpected error %v", e.name, via, a.Err), false, feats
				}
				var warns []string
				for _, ln := range logLines(a.Log) {
					if strings.HasPrefix(ln, "WARNING:") {
						warns = append(warns, ln)
					}
				}
				if len(warns) != len(o.Warnings) {
					return fmt.Sprintf("%s/%s: %d warnings, expected %d: %q", e.name, via, len(warns), len(o.Warnings), a.Log), false, feats
				}
				for k, w := range warns {
					mm := warnPosRe.FindStringSubmatch(w)
					if mm == nil {
						return fmt.Sprintf("warning %q carries no 'line L:C'", w), false, feats
					}
					l, _ := strconv.Atoi(mm[1])
					cc, _ := strconv.Atoi(mm[2])
					st := o.Warnings[k]
					last := r.SSpan[st].Last
					if st.Semi {
						last--
					}
					wantOff := m.toks[last].End
					if interest < 0 {
						interest = wantOff
					}
					off, ok := m.offsetOf(l, cc)
					if !ok || off != wantOff {
						wl, wc := bc.LineCol(m.nl, wantOff)
						return fmt.Sprintf("%s/%s: %q; the bind statement's target ends at offset %d = line %d:%d", e.name, via, w, wantOff, wl, wc), false, feats
					}
				}
			}
		}
	}
	if whole.log != fr.log {
		return fmt.Sprintf("diagnostics differ between whole and chunked:\n%q\n%q", clip(whole.log, 300), clip(fr.log, 300)), false, feats
	}
	if c.Kind == "runtime" {
		switch {
		case o.RT != nil:
			feats = append(feats, "runtime:"+o.RT.Class)
		case len(o.Warnings) > 0:
			feats = append(feats, "runtime:warning-only")
		default:
			feats = append(feats, "runtime:clean-run(line table and positions only)")
		}
	}
	if interest >= 0 {
		line, _ := bc.LineCol(m.nl, interest)
		pre := c.Src[:interest]
		multibyte := len(pre) != len([]rune(pre))
		cr := strings.Contains(pre, "\r")
		chunkBefore := false
		for _, b := range boundaries(c.Script, len(c.Src)) {
			if b < interest {
				chunkBefore = true
			}
		}
		feats = append(feats, "offsetclass:"+strconv.Itoa(varintClass(interest)))
		if interest >= 4096 {
			feats = append(feats, "offset-beyond-one-page")
		}
		nontrivial = line >= 2 || interest > 240 || multibyte || cr || chunkBefore
	}
	return "", nontrivial, feats
}

func genC08(t *rapid.T) *caseC08 {
	c := &caseC08{}
	cfg := gen.DefaultCfg()
	cfg.MaxTop, cfg.MaxBody, cfg.MaxDepth, cfg.ExprDepth = 6, 4, 2, 3
	cfg.Binds = true
	cfg.PPar = 15
	cfg.PPrelude = 0 // the runtime kind adds its own below
	c.Kind = []string{"compile", "lexical", "runtime"}[gen.Weighted(t, "kind", 35, 20, 45)]
	if c.Kind == "runtime" {
		cfg.PWild = 35
		cfg.PDivZero = 30
		cfg.PUnknown = 20
		cfg.PDupChild = 30
		cfg.WVar, cfg.WAsg, cfg.WPrint, cfg.WDef, cfg.WBind = 20, 20, 20, 20, 20
	} else {
		cfg.PWild = 10
	}
	var p *gen.Prog
	// an accepted program is needed
	for try := 0; ; try++ {
		p, _ = gen.GenProg(t, cfg)
		if ref.Run(p).Compile == nil {
			break
		}
		if try > 20 {
			p = &gen.Prog{}
			break
		}
	}
	if c.Kind == "runtime" && gen.Chance(t, 8, "wideoperands") {
		// hundreds of declarations in front: the failing instruction's operand
		// (a slot or a constant index) needs two bytes, each with a position of its own
		p = &gen.Prog{Stmts: append(gen.PreludeN(t, gen.Pick(t, "wideN", []int{236, 239, 240, 241, 242, 250, 345, 400})), p.Stmts...)}
	}
	toks := gen.RenderProg(p).Toks
	switch c.Kind {
	case "runtime":
		c.Prog = p
	case "compile":
		if len(toks) == 0 {
			toks = []gen.Tok{gen.W("print"), gen.N("1")}
		}
		m := gen.GenMutation(t, toks, 12)
		c.Mut = &m
		toks = m.Apply(toks)
	}
	c.toks = toks
	lo := gen.LayoutOpts{Plain: gen.Pick(t, "plainpct", []int{40, 75})}
	lay := gen.GenLayout(t, toks, lo)
	// padding: blank lines / comment lines / CRLF, sized to push the offsets
	// of interest over a size class
	if gen.Chance(t, 55, "pad") {
		target := gen.Pick(t, "padclass", []int{200, 236, 240, 2280, 2287, 4090, 4096, 4100, 8190, 67815, 67823})
		if target > 60000 && !gen.Chance(t, 20, "hugepad") {
			target = 2288
		}
		c.Pad = target - gen.Int(t, 0, 12, "padslack")
		var sb strings.Builder
		for sb.Len() < c.Pad {
			rem := c.Pad - sb.Len()
			n := gen.Int(t, 0, 70, "padline")
			if n+1 > rem {
				n = rem - 1
			}
			switch gen.Weighted(t, "padkind", 50, 25, 25) {
			case 0:
				sb.WriteString("#" + strings.Repeat(gen.Pick(t, "padch", []string{"x", "é", " ", "\t"}), n)[:max(0, n-1)])
			case 1:
				sb.WriteString(strings.Repeat(" ", n))
			}
			sb.WriteString(gen.Pick(t, "padnl", []string{"\n", "\n", "\r\n"}))
		}
		pad := sb.String()
		// do not end inside a multi-byte character
		for len(pad) > 0 && !strings.HasSuffix(pad, "\n") {
			pad = pad[:len(pad)-1]
		}
		lay.Gaps[0] = pad + lay.Gaps[0]
	}
	c.Layout = lay
	var pos []gen.TokPos
	c.Src, pos = renderChecked(toks, lay)
	if c.Kind == "lexical" {
		c.Src, _, _ = injectLexFault(t, c.Src, pos)
	}
	_, c.Script = drawScript(t, len(c.Src))
	return c
}

func TestC08(t *testing.T) {
	rec := harness.Get("C08")
	if path := replayPath(); path != "" {
		var c caseC08
		must(harness.LoadReplay(path, &c))
		if c.Kind != "lexical" {
			// re-derive the token list
			if c.Prog != nil {
				c.toks = gen.RenderProg(c.Prog).Toks
			} else {
				tp, _ := gen.Tokenize(c.Src)
				for _, x := range tp {
					c.toks = append(c.toks, x.Tok)
				}
			}
		}
		if viol, _, _ := checkC08(&c); viol != "" {
			rec.Fail(t, c, "%s", viol)
		}
		return
	}
	rapid.Check(t, func(t *rapid.T) {
		c := genC08(t)
		viol, nt, feats := checkC08(c)
		rec.Case(nt, harness.Hash(c.Src, fmt.Sprint(c.Script)), feats...)
		if nt {
			rec.Sample(func() any {
				return map[string]any{"kind": c.Kind, "src_tail": tail(c.Src, 260), "pad": c.Pad, "mutation": c.Mut}
			})
		}
		if viol != "" {
			rec.Fail(t, c, "%s\nsource (last 400 bytes): %q", viol, tail(c.Src, 400))
		}
	})
}

func tail(s string, n int) string {
	if len(s) <= n {
		return s
	}
	return fmt.Sprintf("(%d bytes)...", len(s)-n) + s[len(s)-n:]
}

func TestReplayC08(t *testing.T) { replayOnly(t); TestC08(t) }
