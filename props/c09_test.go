package props

import (
	"bytes"
	"fmt"
	"testing"

	"pgregory.net/rapid"

	"github.com/wkhere/bcl"

	"verif/bc"
	"verif/gen"
	"verif/harness"
	"verif/ref"
)

// C09 — bytecode dump and load round trip preserves the program.

type caseC09 struct {
	dumpCase
	Kind        string `json:"kind"`
	Sizes       []int  `json:"sizes"`
	EOFWithData bool   `json:"eofwithdata"`
}

func runProg(p *bcl.Prog) actual {
	var out, log bytes.Buffer
	bcl.OptOutput(&out)
	return executeWith(p, &out, &log)
}

// executeWith runs Execute; the program's writers were fixed when it was
// parsed or loaded, so out/log must be the buffers given at that time.
func executeWith(p *bcl.Prog, out, log *bytes.Buffer, opts ...bcl.Option) (a actual) {
	defer func() {
		if r := recover(); r != nil {
			a.Panic = r
		}
		a.Out, a.Log = out.String(), log.String()
	}()
	// statistics and trace go to the writer of the Execute call, the
	// program's own output to the writer it was parsed or loaded with
	o := append([]bcl.Option{bcl.OptOutput(out), bcl.OptLogger(log)}, opts...)
	a.Blocks, a.Binding, a.Err = bcl.Execute(p, o...)
	return
}

func errStr(err error) string {
	if err == nil {
		return "<nil>"
	}
	return err.Error()
}

func checkC09(c caseC09) (viol string, nontrivial bool, feats []string) {
	feats = append(feats, "reader:"+c.Kind)
	feats = append(feats, c.Classes...)
	// programs outside the property's domain (results beyond 2^20 bytes)
	// must not be executed at all: they would exhaust memory
	if o := ref.Run(c.Prog); o.Unspecified != "" && o.Unspecified != "comparison with NaN" {
		return "", false, append(feats, "skipped:"+o.Unspecified)
	}
	// original: parse with disassembly to its own writers
	var o1, l1 bytes.Buffer
	var p1 *bcl.Prog
	var perr error
	var pan any
	func() {
		defer func() { pan = recover() }()
		p1, perr = bcl.Parse([]byte(c.Src), c.Name, bcl.OptOutput(&o1), bcl.OptLogger(&l1), bcl.OptDisasm(true))
	}()
	if pan != nil {
		return fmt.Sprintf("Parse panicked: %v", pan), false, feats
	}
	if perr != nil {
		return "", false, append(feats, "skipped:not-accepted")
	}
	dis1 := o1.String()
	o1.Reset()
	d1, pan, derr := dumpOf(p1)
	if pan != nil {
		return fmt.Sprintf("Dump panicked: %v", pan), false, feats
	}
	if derr != nil {
		return fmt.Sprintf("Dump failed: %v", derr), false, feats
	}
	// load through the partitioned reader
	var o2, l2 bytes.Buffer
	rd := &chunkReader{data: append([]byte{}, d1...), sizes: c.Sizes, eofWithData: c.EOFWithData}
	p2, lerr, pan := loadProg(rd, "othername", bcl.OptOutput(&o2), bcl.OptLogger(&l2), bcl.OptDisasm(true))
	if pan != nil {
		return fmt.Sprintf("LoadProg panicked (%s reads): %v", c.Kind, pan), false, feats
	}
	if lerr != nil {
		return fmt.Sprintf("LoadProg of a fresh dump failed (%s reads %v): %v", c.Kind, c.Sizes, lerr), false, feats
	}
	dis2 := o2.String()
	o2.Reset()
	if dis1 != dis2 {
		return fmt.Sprintf("disassembly differs after dump/load:\n--- original\n%s--- loaded\n%s", clip(dis1, 1500), clip(dis2, 1500)), false, feats
	}
	a1 := executeWith(p1, &o1, &l1)
	a2 := executeWith(p2, &o2, &l2)
	if a1.Panic != nil || a2.Panic != nil {
		return fmt.Sprintf("Execute panicked: original=%v loaded=%v", a1.Panic, a2.Panic), false, feats
	}
	switch {
	case a1.Out != a2.Out:
		return fmt.Sprintf("output differs: original %q loaded %q", clip(a1.Out, 300), clip(a2.Out, 300)), false, feats
	case a1.Log != a2.Log:
		return fmt.Sprintf("log (warnings) differs: original %q loaded %q", a1.Log, a2.Log), false, feats
	case errStr(a1.Err) != errStr(a2.Err):
		return fmt.Sprintf("error differs: original %q loaded %q", errStr(a1.Err), errStr(a2.Err)), false, feats
	case !eqBlocks(a1.Blocks, a2.Blocks):
		return fmt.Sprintf("blocks differ: original %s loaded %s", clip(showBlocks(a1.Blocks), 500), clip(showBlocks(a2.Blocks), 500)), false, feats
	case !eqBinding(a1.Binding, a2.Binding):
		return fmt.Sprintf("binding differs: original %#v loaded %#v", a1.Binding, a2.Binding), false, feats
	}
	d2, pan, derr := dumpOf(p2)
	if pan != nil || derr != nil {
		return fmt.Sprintf("Dump of the loaded program failed: %v %v", pan, derr), false, feats
	}
	if !bytes.Equal(d1, d2) {
		return fmt.Sprintf("dump of the loaded program differs from the original dump (%d vs %d bytes)", len(d2), len(d1)), false, feats
	}
	// Load on a Prog that has been used before (it owns a line table and
	// constants of another program) must give the same program
	var o3, l3 bytes.Buffer
	used, uerr := bcl.Parse([]byte("var a = 1\nprint a\n\n\n# x\nprint a + 2\ndef q {\n z = 1\n}\n\n\n\n\n\n\n\n\n\n\n\n"), "used", bcl.OptOutput(&o3), bcl.OptLogger(&l3))
	if uerr == nil {
		var lpan any
		var lerr2 error
		func() {
			defer func() { lpan = recover() }()
			lerr2 = used.Load(bytes.NewReader(d1))
		}()
		if lpan != nil || lerr2 != nil {
			return fmt.Sprintf("Load into a used Prog failed: %v %v", lpan, lerr2), false, feats
		}
		d3, pan3, derr3 := dumpOf(used)
		if pan3 != nil || derr3 != nil || !bytes.Equal(d3, d1) {
			return fmt.Sprintf("after Load into a used Prog the dump differs from the file loaded (%d vs %d bytes)", len(d3), len(d1)), false, feats
		}
		a3 := executeWith(used, &o3, &l3)
		if errStr(a3.Err) != errStr(a1.Err) || a3.Log != a1.Log {
			return fmt.Sprintf("a used Prog after Load behaves differently: err %q vs %q, log %q vs %q", errStr(a3.Err), errStr(a1.Err), a3.Log, a1.Log), false, feats
		}
	}
	// the harness's own decoder must recover name and sizes
	f, err := bc.Decode(d1)
	if err != nil {
		return fmt.Sprintf("independent decoder rejects the dump: %v", err), false, feats
	}
	if f.Name != c.Name {
		return fmt.Sprintf("program name in the dump is %q, given %q", clip(f.Name, 60), clip(c.Name, 60)), false, feats
	}
	maxc := 1
	for _, k := range f.Consts {
		if s, ok := k.(string); ok && varintClass(len(s)) > maxc {
			maxc = varintClass(len(s))
		}
	}
	if vc := varintClass(len(f.Name)); vc > maxc {
		maxc = vc
	}
	maxp := 1
	for _, x := range f.Positions {
		if vc := varintClass(x); vc > maxp {
			maxp = vc
		}
	}
	feats = append(feats, fmt.Sprintf("maxlenclass:%d", maxc), fmt.Sprintf("maxposclass:%d", maxp), fmt.Sprintf("codeclass:%d", varintClass(len(f.Code))))
	switch {
	case a1.Err != nil:
		feats = append(feats, "run:error")
	case a1.Log != "":
		feats = append(feats, "run:warning")
	default:
		feats = append(feats, "run:ok")
	}
	nontrivial = maxc > 1 || maxp > 1 || c.Kind != "whole" || a1.Err != nil || a1.Log != ""
	return "", nontrivial, feats
}

func TestC09(t *testing.T) {
	rec := harness.Get("C09")
	if path := replayPath(); path != "" {
		var c caseC09
		must(harness.LoadReplay(path, &c))
		c.source()
		if viol, _, _ := checkC09(c); viol != "" {
			rec.Fail(t, c, "%s", viol)
		}
		return
	}
	rapid.Check(t, func(t *rapid.T) {
		c := caseC09{dumpCase: genDumpCase(t, acceptedCfg(t))}
		c.Kind, c.Sizes, c.EOFWithData = drawReadSizes(t, "reads")
		viol, nt, feats := checkC09(c)
		rec.Case(nt, harness.Hash(c.Src, c.Name, c.Kind, fmt.Sprint(c.Sizes)), feats...)
		if nt {
			rec.Sample(func() any {
				return map[string]any{"src": clip(c.Src, 300), "name": clip(c.Name, 40), "classes": c.Classes, "reader": c.Kind, "read_sizes": c.Sizes}
			})
		}
		if viol != "" {
			rec.Fail(t, c, "%s\nsource:\n%s", viol, clip(c.Src, 600))
		}
	})
}

func TestReplayC09(t *testing.T) { replayOnly(t); TestC09(t) }

var _ = gen.DefaultNames
