package props

import (
	"bytes"
	"fmt"
	"io"
	"strings"
	"sync/atomic"
	"testing"
	"testing/iotest"
	"time"

	"pgregory.net/rapid"

	"github.com/wkhere/bcl"

	"verif/bc"
	"verif/gen"
	"verif/harness"
)

// C13 — truncated bytecode is rejected with an error.

// cutClass tells where a cut point lies relative to the fields of the file.
func cutClass(f *bc.File, cut int) string {
	for _, s := range f.Sections {
		if cut == s.Start || cut == s.End {
			return "section-boundary"
		}
	}
	// Bounds holds the end of every field; a cut strictly inside a field of
	// more than one byte is the interesting class
	prev := 0
	for _, b := range f.Bounds {
		if cut == b {
			return "field-boundary"
		}
		if cut < b {
			if b-prev > 1 {
				return fmt.Sprintf("inside-%s", fieldKind(f, prev, b))
			}
			return "field-boundary"
		}
		prev = b
	}
	return "other"
}

func fieldKind(f *bc.File, a, b int) string {
	n := b - a
	switch {
	case n == 8:
		return "8-byte-field"
	case n <= 9:
		return "multibyte-varint-or-short-body"
	}
	return "long-body"
}

// checkCuts tries the cut points of one dump. all = every cut.
// checkCuts runs the cut loop under a watchdog: LoadProg runs in the caller's
// goroutine, so a hang would otherwise only show as the shard running out of
// time. No progress for 20 s on one prefix is reported as the violation it is.
func checkCuts(dump []byte, f *bc.File, all bool, extra []int) (tried int, classes map[string]int, viol string) {
	type res struct {
		tried   int
		classes map[string]int
		viol    string
	}
	var cur, mode int64
	ch := make(chan res, 1)
	go func() {
		t, c, v := checkCutsLoop(dump, f, all, extra, &cur, &mode)
		ch <- res{t, c, v}
	}()
	last, stale := int64(-1), 0
	for {
		select {
		case r := <-ch:
			return r.tried, r.classes, r.viol
		case <-time.After(2 * time.Second):
			now := atomic.LoadInt64(&cur)*4 + atomic.LoadInt64(&mode)
			if now == last {
				stale++
			} else {
				last, stale = now, 0
			}
			if stale >= 10 {
				return 0, map[string]int{}, fmt.Sprintf("LoadProg does not return (20 s) on the prefix of length %d of a %d-byte dump (mode %d)", atomic.LoadInt64(&cur), len(dump), atomic.LoadInt64(&mode))
			}
		}
	}
}

func checkCutsLoop(dump []byte, f *bc.File, all bool, extra []int, cur, curMode *int64) (tried int, classes map[string]int, viol string) {
	classes = map[string]int{}
	var cuts []int
	if all {
		for i := 0; i < len(dump); i++ {
			cuts = append(cuts, i)
		}
	} else {
		seen := map[int]bool{}
		add := func(c int) {
			if c >= 0 && c < len(dump) && !seen[c] {
				seen[c] = true
				cuts = append(cuts, c)
			}
		}
		// neighbourhoods of field boundaries: all of them for ordinary dumps; for
		// dumps with thousands of fields the first and last 60 and every k-th
		bounds := f.Bounds
		step, width := 1, 12
		if len(bounds) > 400 {
			step, width = len(bounds)/150, 3
		}
		for i, b := range bounds {
			if i < 40 || i >= len(bounds)-40 || i%step == 0 {
				for d := -width; d <= width; d++ {
					add(b + d)
				}
			}
		}
		// inside every section: the boundaries after each 128th element (a
		// loader that reads or allocates in blocks of 2^k elements)
		for _, sec := range f.Sections {
			j := 0
			for _, b := range bounds {
				if b < sec.Start || b > sec.End {
					continue
				}
				if m := j % 128; m <= 1 || m == 127 {
					add(b - 1)
					add(b)
					add(b + 1)
				}
				j++
			}
		}
		for m := 4096; m < len(dump)+4096; m += 4096 {
			for d := -2; d <= 2; d++ {
				add(m + d)
			}
		}
		for _, c := range extra {
			add(c)
		}
	}
	for _, cut := range cuts {
		atomic.StoreInt64(cur, int64(cut))
		for mode := 0; mode < 3; mode++ {
			atomic.StoreInt64(curMode, int64(mode))
			var p *bcl.Prog
			var err error
			var pan any
			switch mode {
			case 0:
				p, err, pan = loadProg(bytes.NewReader(dump[:cut]), "x")
			case 1:
				if cut > 3000 && len(dump) > 8192 {
					continue // one byte per read is quadratic-ish for long prefixes; sampled below 3000
				}
				p, err, pan = loadProg(iotest.OneByteReader(bytes.NewReader(dump[:cut])), "x")
			default:
				// with the options a caller may pass (the tool's --bload -d)
				p, err, pan = loadProg(bytes.NewReader(dump[:cut]), "x", bcl.OptDisasm(true), bcl.OptOutput(io.Discard), bcl.OptLogger(io.Discard))
			}
			_ = p
			tried++
			if pan != nil {
				return tried, classes, fmt.Sprintf("LoadProg panicked on the prefix of length %d of a %d-byte dump (mode %d): %v", cut, len(dump), mode, pan)
			}
			if err == nil {
				return tried, classes, fmt.Sprintf("LoadProg accepted the proper prefix of length %d of a %d-byte dump (mode %d)", cut, len(dump), mode)
			}
		}
		classes["cut:"+cutClass(f, cut)]++
	}
	return tried, classes, ""
}

// checkHeaders: whatever does not start with the magic bytes, or declares a
// version this build does not support, is refused with an error, whatever
// follows and however much of it: the complete dump of the case (possibly
// tens of kilobytes) with a damaged header, and plain text (the program's own
// source, also behind a blank line) in place of a dump. Under a watchdog.
func checkHeaders(dump []byte, src string) string {
	type cand struct {
		what string
		data []byte
	}
	var cands []cand
	mod := func(what string, at int, b ...byte) {
		d := append([]byte{}, dump...)
		copy(d[at:], b)
		cands = append(cands, cand{what, d})
	}
	mod("magic 00 00", 0, 0, 0)
	mod("magic FC 6D", 0, 0xFC, 0x6D)
	mod("magic 6C FC", 0, 0x6C, 0xFC)
	mod("magic 'de'", 0, 'd', 'e')
	mod("magic LF LF", 0, '\n', '\n')
	mod("version 0.1", 2, 0, 1)
	mod("version 2.0", 2, 2, 0)
	mod("version 1.2", 2, 1, 2)
	mod("version 255.255", 2, 255, 255)
	pad := src + strings.Repeat("# text\n", 6)
	cands = append(cands, cand{"the source text instead of a dump", []byte(pad)}, cand{"a blank line and the source text", []byte("\n" + pad)},
		cand{"CR LF and the source text", []byte("\r\n" + pad)}, cand{"blanks", []byte(strings.Repeat(" ", 64))}, cand{"line feeds", []byte(strings.Repeat("\n", 5000))})
	done := make(chan string, 1)
	var cur int64
	go func() {
		for i, c := range cands {
			atomic.StoreInt64(&cur, int64(i))
			for mode := 0; mode < 2; mode++ {
				var r io.Reader = bytes.NewReader(c.data)
				if mode == 1 {
					if len(c.data) > 8192 {
						continue
					}
					r = iotest.OneByteReader(r)
				}
				_, err, pan := loadProg(r, "x", bcl.OptOutput(io.Discard), bcl.OptLogger(io.Discard))
				if pan != nil {
					done <- fmt.Sprintf("LoadProg panicked on %s (%d bytes): %v", c.what, len(c.data), pan)
					return
				}
				if err == nil {
					done <- fmt.Sprintf("LoadProg accepted %s (%d bytes)", c.what, len(c.data))
					return
				}
			}
		}
		done <- ""
	}()
	select {
	case v := <-done:
		return v
	case <-time.After(30 * time.Second):
		c := cands[atomic.LoadInt64(&cur)]
		return fmt.Sprintf("LoadProg does not return (30 s) on %s (%d bytes)", c.what, len(c.data))
	}
}

type caseC13 struct {
	dumpCase
	Dump []byte `json:"dump,omitempty"`
}

func checkC13(c caseC13, extra []int, forceAll bool) (viol string, nontrivial bool, feats []string, cuts int) {
	pr := parseWhole(c.Src, c.Name)
	if pr.pan != nil {
		return fmt.Sprintf("Parse panicked: %v", pr.pan), false, nil, 0
	}
	if pr.err != nil {
		return "", false, []string{"skipped:not-accepted"}, 0
	}
	f, err := bc.Decode(pr.dump)
	if err != nil {
		return fmt.Sprintf("the harness's decoder cannot read the dump: %v", err), false, nil, 0
	}
	lim := 4096
	if thorough() {
		lim = 8192
	}
	all := len(pr.dump) <= lim || forceAll
	tried, classes, viol := checkCuts(pr.dump, f, all, extra)
	for k, n := range classes {
		harness.Get("C13").Count(k, n)
	}
	if viol == "" {
		viol = checkHeaders(pr.dump, c.Src)
	}
	multi := classes["cut:inside-8-byte-field"]+classes["cut:inside-multibyte-varint-or-short-body"]+classes["cut:inside-long-body"] > 0
	feats = append(feats, c.Classes...)
	if all {
		feats = append(feats, "cuts:exhaustive")
	} else {
		feats = append(feats, "cuts:near-boundaries+random")
	}
	return viol, multi, feats, tried
}

func TestC13(t *testing.T) {
	rec := harness.Get("C13")
	rapid.Check(t, func(t *rapid.T) {
		c := caseC13{dumpCase: genDumpCase(t, acceptedCfg(t))}
		var extra []int
		for i := 0; i < 64; i++ {
			extra = append(extra, gen.Int(t, 0, 1<<17, "randcut"))
		}
		viol, nt, feats, cuts := checkC13(c, extra, false)
		rec.Case(nt, harness.Hash(c.Src, c.Name), feats...)
		rec.Count("cuts-tried", cuts)
		if nt {
			rec.Sample(func() any {
				return map[string]any{"src": clip(c.Src, 300), "name": clip(c.Name, 40), "classes": c.Classes}
			})
		}
		if viol != "" {
			c.Src = clip(c.Src, 1<<20)
			rec.Fail(t, c, "%s\nsource:\n%s", viol, clip(c.Src, 600))
		}
	})
}

// TestC13Sweeps enumerates all 2^16 magics and all 2^16 version pairs in
// front of a valid remainder.
func TestC13Sweeps(t *testing.T) {
	if !firstShard() {
		t.Skip("runs in the first shard only")
	}
	rec := harness.Get("C13")
	rec.SetScope("sweeps")
	pr := parseWhole("def b \"n\" { x = 1 + 2.5; y = \"s\" }\nbind b -> struct\nprint 3\n", "name")
	must(pr.err)
	d := append([]byte{}, pr.dump...)
	n := 0
	for m := 0; m < 1<<16; m++ {
		d[0], d[1] = byte(m>>8), byte(m)
		_, err, pan := loadProg(bytes.NewReader(d), "x")
		n++
		good := d[0] == 0xFC && d[1] == 0x6C
		var viol string
		switch {
		case pan != nil:
			viol = fmt.Sprintf("panic: %v", pan)
		case good && err != nil:
			viol = fmt.Sprintf("valid magic refused: %v", err)
		case !good && err == nil:
			viol = "invalid magic accepted"
		}
		if viol != "" {
			rec.Fail(t, map[string]any{"sweep": "magic", "bytes": []int{int(d[0]), int(d[1])}}, "magic sweep % x: %s", d[:2], viol)
		}
	}
	d[0], d[1] = 0xFC, 0x6C
	for v := 0; v < 1<<16; v++ {
		d[2], d[3] = byte(v>>8), byte(v)
		_, err, pan := loadProg(bytes.NewReader(d), "x")
		n++
		good := d[2] == 1 && d[3] <= 1
		var viol string
		switch {
		case pan != nil:
			viol = fmt.Sprintf("panic: %v", pan)
		case good && err != nil:
			viol = fmt.Sprintf("supported version %d.%d refused: %v", d[2], d[3], err)
		case !good && err == nil:
			viol = fmt.Sprintf("unsupported version %d.%d accepted", d[2], d[3])
		}
		if viol != "" {
			rec.Fail(t, map[string]any{"sweep": "version", "bytes": []int{int(d[2]), int(d[3])}}, "version sweep: %s", viol)
		}
	}
	// headers shorter than 4 bytes and the empty input
	for cut := 0; cut < 4; cut++ {
		_, err, pan := loadProg(bytes.NewReader(pr.dump[:cut]), "x")
		if pan != nil || err == nil {
			rec.Fail(t, map[string]any{"sweep": "shortheader", "cut": cut}, "header of %d bytes: err=%v panic=%v", cut, err, pan)
		}
	}
	rec.Case(true, harness.Hash("sweep-magic"), "sweep:magic")
	rec.Case(true, harness.Hash("sweep-version"), "sweep:version")
	rec.SetExtra("magic_and_version_values_enumerated", n)
	rec.SetExtra("exhaustive_subspaces", "all 65536 magic values, all 65536 (major,minor) pairs; every cut point of every dump up to 4096 bytes")
}

func TestReplayC13(t *testing.T) {
	replayOnly(t)
	var c caseC13
	must(harness.LoadReplay(replayPath(), &c))
	if c.Prog == nil {
		TestC13Sweeps(t)
		return
	}
	c.source()
	if viol, _, _, _ := checkC13(c, nil, true); viol != "" {
		harness.Get("C13").Fail(t, c, "%s", viol)
	}
}
