package props

import (
	"encoding/json"
	"fmt"
	"os"
	"path/filepath"
	"sort"
	"testing"

	"pgregory.net/rapid"

	"verif/bc"
	"verif/gen"
	"verif/ref"
)

// TestC14MakeCorpus writes the frozen corpus. It is run once, by hand
// (VERIF_MAKE_CORPUS=1), against the pinned build; checks never run it.
func TestC14MakeCorpus(t *testing.T) {
	if os.Getenv("VERIF_MAKE_CORPUS") != "1" {
		t.Skip("corpus is frozen; set VERIF_MAKE_CORPUS=1 to (re)create it")
	}
	dir := corpusDir()
	must(os.MkdirAll(dir, 0o755))
	var exps []corpusExpect
	n := 0
	extend := os.Getenv("VERIF_EXTEND_CORPUS") == "1"
	if extend {
		// keep what is recorded, add files (operand bytes with positions of
		// their own, runs that fail or warn at operand-bearing instructions)
		b, err := os.ReadFile(filepath.Join(dir, "EXPECT.json"))
		must(err)
		must(json.Unmarshal(b, &exps))
		n = len(exps)
	}
	add := func(origin string, file []byte, checkRef bool) {
		f, err := bc.Decode(file)
		must(err)
		e := observe(file)
		if checkRef {
			r := bc.Exec(f, 2000000)
			if r.Internal != "" || r.Unspecified != "" {
				return
			}
			a, lerr := loadAndRun(file)
			must(lerr)
			if v := compareRefVM(r, a); v != "" {
				panic("corpus candidate disagrees with the reference VM: " + v)
			}
		}
		ops := map[int]bool{}
		ins, _ := bc.Instrs(f.Code)
		for _, in := range ins {
			ops[int(in.Op)] = true
		}
		tcs := map[int]bool{}
		for _, k := range f.Consts {
			switch k.(type) {
			case nil:
				tcs[bc.TNil] = true
			case int:
				tcs[bc.TInt] = true
			case float64:
				tcs[bc.TFloat] = true
			case string:
				tcs[bc.TStr] = true
			case bool:
				tcs[bc.TBool] = true
			}
		}
		for o := range ops {
			e.Opcodes = append(e.Opcodes, o)
		}
		for c := range tcs {
			e.Typecodes = append(e.Typecodes, c)
		}
		sort.Ints(e.Opcodes)
		sort.Ints(e.Typecodes)
		e.File = fmt.Sprintf("%s-%03d.bcb", origin, n)
		e.Origin = origin
		n++
		must(os.WriteFile(filepath.Join(dir, e.File), file, 0o644))
		exps = append(exps, e)
	}
	if extend {
		got, fails := 0, 0
		rapid.Check(t, func(t *rapid.T) {
			if got >= 48 {
				return
			}
			f, _, _ := bc.Assemble(t)
			if len(f.Consts) >= 300 {
				return
			}
			r := bc.Exec(f, 2000000)
			if r.Internal != "" || r.Unspecified != "" {
				return
			}
			if !(r.Failed || len(r.Warnings) > 0) && got-fails >= 8 {
				return
			}
			before := len(exps)
			add("asm2", f.Encode(), true)
			if len(exps) > before {
				got++
				if r.Failed || len(r.Warnings) > 0 {
					fails++
				}
			}
		})
		b, err := json.MarshalIndent(exps, "", " ")
		must(err)
		must(os.WriteFile(filepath.Join(dir, "EXPECT.json"), b, 0o644))
		t.Logf("corpus now has %d files (%d added, %d of them failing or warning)", len(exps), got, fails)
		return
	}
	// 1. the repository's own test data, compiled by the pinned build
	for _, name := range []string{"basic_test.bcl", "big1.bcl"} {
		src, err := os.ReadFile(filepath.Join("/repo/testdata", name))
		must(err)
		pr := parseWhole(string(src), name)
		must(pr.err)
		add("repo", pr.dump, true)
	}
	// 2. dumps of generated source programs, 3. assembled files
	srcN, asmN := 0, 0
	rapid.Check(t, func(t *rapid.T) {
		if srcN < 70 {
			c := genDumpCase(t, acceptedCfg(t))
			if o := ref.Run(c.Prog); o.Unspecified == "" && o.Compile == nil && len(c.Src) < 20000 {
				pr := parseWhole(c.Src, c.Name)
				if pr.err == nil {
					add("source", pr.dump, true)
					srcN++
				}
			}
		}
		if asmN < 150 {
			f, _, _ := bc.Assemble(t)
			if len(f.Consts) < 300 || asmN%10 == 0 {
				add("asm", f.Encode(), true)
				asmN++
			}
		}
	})
	b, err := json.MarshalIndent(exps, "", " ")
	must(err)
	must(os.WriteFile(filepath.Join(dir, "EXPECT.json"), b, 0o644))
	t.Logf("wrote %d corpus files", len(exps))
}

var _ = gen.DefaultNames
