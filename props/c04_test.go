package props

import (
	"bytes"
	"fmt"
	"os"
	"strings"
	"testing"

	"pgregory.net/rapid"

	"github.com/wkhere/bcl"

	"verif/gen"
	"verif/harness"
	"verif/ref"
)

// C04 — the bind statement selects exactly the designated blocks.

func genC04(t *rapid.T) caseProg {
	cfg := gen.DefaultCfg()
	cfg.MaxTop = 12
	cfg.MaxBody = 3
	cfg.BindInBlocks = gen.Chance(t, 25, "bindinblocks")
	cfg.MaxDepth = 1
	cfg.ExprDepth = 1
	cfg.PWild = 0
	cfg.Binds = true
	cfg.PBadBind = 15
	cfg.PEmbedAsg = 0
	cfg.WVar, cfg.WAsg, cfg.WPrint, cfg.WDef, cfg.WBind = 5, 10, 5, 50, 30
	cfg.BNames = []string{"", `"a"`, `"b"`}
	if gen.Chance(t, 30, "similartypes") {
		// block types that differ only by case and underscores are different types
		cfg.Types = []string{"s", "S", "s_", "t", "T_"}
	} else if gen.Chance(t, 30, "typesarenames") {
		// block types that are also names of variables in scope: the bind
		// statement names the type, never the variable
		cfg.Types = []string{"a", "b", "s"}
		cfg.WVar = 25
	}
	return genCaseProg(t, cfg, gen.LayoutOpts{Plain: 95})
}

func nontrivialC04(c caseProg, o *ref.Outcome, sh *progShape) bool {
	if sh.binds == 0 {
		return false
	}
	multi := false
	for _, n := range sh.topKeys {
		_ = n
	}
	types := map[string]int{}
	for _, st := range c.Prog.Stmts {
		if st.K == "def" {
			types[st.Name]++
		}
	}
	for _, n := range types {
		if n >= 2 {
			multi = true
		}
	}
	return multi || len(types) >= 2 || sh.bindAfterDef || sh.binds >= 2
}

// extraC04: the binding, the error and the warnings on the log writer are
// those of the bind statements executed, whichever way the program is run:
// compiled and executed separately, from bytecode, traced.
func extraC04(c caseProg, o *ref.Outcome, a actual) string {
	if o.Compile != nil {
		return ""
	}
	pr := parseWhole(c.Src, "n")
	if pr.err != nil || pr.pan != nil {
		return ""
	}
	for _, via := range []string{"load", "load+trace"} {
		var out, log bytes.Buffer
		p, lerr, pan := loadProg(bytes.NewReader(pr.dump), "n", bcl.OptOutput(&out), bcl.OptLogger(&log))
		if lerr != nil || pan != nil {
			return fmt.Sprintf("%s: LoadProg of the program's own dump failed: %v %v", via, lerr, pan)
		}
		var xopts []bcl.Option
		if via == "load+trace" {
			xopts = []bcl.Option{bcl.OptTrace(true), bcl.OptStats(true)}
		}
		b := executeWith(p, &out, &log, xopts...)
		if b.Panic != nil {
			return fmt.Sprintf("%s: Execute panicked: %v", via, b.Panic)
		}
		if n := strings.Count(b.Log, "WARNING:"); n != len(o.Warnings) {
			return fmt.Sprintf("run %s: %d warnings on the log writer, %d bind statements after the first were executed; log=%q", via, n, len(o.Warnings), b.Log)
		}
		if (b.Err == nil) != (a.Err == nil) || !eqBinding(a.Binding, b.Binding) {
			return fmt.Sprintf("run %s: binding %#v error %v; Interpret gave binding %#v error %v", via, b.Binding, b.Err, a.Binding, a.Err)
		}
	}
	return ""
}

func TestC04(t *testing.T) { runProgProperty(t, "C04", genC04, nontrivialC04, extraC04) }
func TestReplayC04(t *testing.T) {
	replayOnly(t)
	var c caseProg
	must(harness.LoadReplay(os.Getenv("VERIF_REPLAY"), &c))
	if c.Prog == nil {
		// a case of the enumerated sub-space: the enumeration is deterministic
		TestC04Exhaustive(t)
		return
	}
	TestC04(t)
}

// TestC04Exhaustive enumerates every selector x target spelling against 0..3
// candidate blocks of the bound type (with other blocks interleaved), with
// and without a preceding bind.
func TestC04Exhaustive(t *testing.T) {
	rec := harness.Get("C04")
	rec.SetScope("exhaustive")
	sels := []string{"", ":1", ":first", ":last", ":all", ":2", ":x", ":struct", ":slice", ":0"}
	targets := []string{"struct", "slice", "map", "first", "last", "all"}
	n := 0
	for _, sel := range sels {
		for _, tg := range targets {
			for cand := 0; cand <= 3; cand++ {
				for _, prior := range []bool{false, true} {
					var sb strings.Builder
					sb.WriteString("def o { k = 0 }\n")
					for i := 0; i < cand; i++ {
						fmt.Fprintf(&sb, "def s \"n%d\" { k = %d }\ndef o \"x%d\" {}\n", i, i+1, i)
					}
					if prior {
						sb.WriteString("bind o:first -> struct\n")
					}
					fmt.Fprintf(&sb, "bind s%s -> %s\n", sel, tg)
					sb.WriteString("def s \"late\" { k = 99 }\n")
					src := sb.String()
					a := interpret(src)
					n++
					// expected, straight from the property text
					mk := func(i int) bcl.Block {
						return bcl.Block{Type: "s", Name: fmt.Sprintf("n%d", i), Fields: map[string]any{"k": i + 1}}
					}
					bad := sel == ":2" || sel == ":x" || sel == ":struct" || sel == ":slice" || sel == ":0" || (tg != "struct" && tg != "slice") || (sel == ":all" && tg != "slice")
					viol := ""
					switch {
					case a.Panic != nil:
						viol = fmt.Sprintf("panic: %v", a.Panic)
					case bad:
						if a.Err == nil || isRuntimeErr(a.Err) || len(a.Blocks) != 0 || a.Binding != nil {
							viol = fmt.Sprintf("expected compile error, got err=%v binding=%v", a.Err, a.Binding)
						}
					case cand == 0:
						if !isRuntimeErr(a.Err) || !strings.Contains(a.Err.Error(), "no blocks of type s") {
							viol = fmt.Sprintf("expected runtime error 'no blocks', got %v", a.Err)
						}
					case (sel == "" || sel == ":1") && cand != 1:
						if !isRuntimeErr(a.Err) || !strings.Contains(a.Err.Error(), fmt.Sprintf("found %d blocks of type s", cand)) {
							viol = fmt.Sprintf("expected runtime error 'expected just 1', got %v", a.Err)
						}
					default:
						var chosen []bcl.Block
						switch sel {
						case "", ":1", ":first":
							chosen = []bcl.Block{mk(0)}
						case ":last":
							chosen = []bcl.Block{mk(cand - 1)}
						case ":all":
							for i := 0; i < cand; i++ {
								chosen = append(chosen, mk(i))
							}
						}
						var want bcl.Binding
						if tg == "struct" {
							want = bcl.StructBinding{Value: chosen[0]}
						} else {
							want = bcl.SliceBinding{Value: chosen}
						}
						wantWarn := 0
						if prior {
							wantWarn = 1
						}
						switch {
						case a.Err != nil:
							viol = fmt.Sprintf("unexpected error %v", a.Err)
						case !eqBinding(want, a.Binding):
							viol = fmt.Sprintf("binding differs: got %#v want %#v", a.Binding, want)
						case strings.Count(a.Log, "WARNING:") != wantWarn:
							viol = fmt.Sprintf("%d warnings, want %d: %q", strings.Count(a.Log, "WARNING:"), wantWarn, a.Log)
						case len(a.Blocks) != 2*cand+2:
							viol = fmt.Sprintf("%d blocks returned, want %d", len(a.Blocks), 2*cand+2)
						}
					}
					rec.Case(true, harness.Hash("exh", src), "exhaustive-subspace")
					if viol != "" {
						rec.Fail(t, map[string]any{"src": src}, "exhaustive selector x target x candidates: %s\nsource:\n%s", viol, src)
					}
				}
			}
		}
	}
	rec.SetExtra("exhaustive_subspace_cases", n)
	rec.SetExtra("exhaustive_subspace", "all 10 selector spellings x 6 targets x 0..3 candidate blocks x {no, one} prior bind")
}

var _ = gen.DefaultNames
var _ = ref.Run
var _ rapid.T
