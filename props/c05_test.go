package props

import (
	"fmt"
	"math"
	"reflect"
	"strconv"
	"strings"
	"testing"

	"pgregory.net/rapid"

	"github.com/wkhere/bcl"

	"verif/gen"
	"verif/harness"
)

// C05 — Unmarshal reproduces configuration values in Go structs.

// ---- declared named types (reflect.StructOf cannot make named types) ----

type Inner struct {
	Name  string
	Count int
	Ratio float64
}

type Leaf struct {
	Flag bool
	Text string `bcl:"txt7"`
}

type HttpServer struct {
	Host    string
	Port    int
	Name    string
	TLSMode bool
	Weight  float64 `bcl:"w8_t"`
}

type Outer struct {
	Name  string
	Inner Inner
	Leaf  Leaf
	Depth int
}

type Tagged struct {
	A    Inner `bcl:"inner.a"`
	B    Inner `bcl:"inner.b"`
	Name string
	Z    int `bcl:"zz9"`
}

type NoName struct {
	MaxSize int
	Label   string
}

// Three distinct types that share package path, name and String() (declared
// in different function scopes), with different layouts and tags: anything
// the library remembers about a type must be remembered per reflect.Type.
func localServerA() reflect.Type {
	type Server struct {
		Host string
		Port int `bcl:"p"`
		Name string
	}
	return reflect.TypeOf(Server{})
}
func localServerB() reflect.Type {
	type Server struct {
		Port   int
		Weight float64 `bcl:"p"`
		Host   string  `bcl:"addr"`
	}
	return reflect.TypeOf(Server{})
}
func localServerC() reflect.Type {
	type Server struct {
		Name string
		Addr string `bcl:"host"`
		Host int    `bcl:"port"`
		Sub  Leaf   `bcl:"leaf"`
	}
	return reflect.TypeOf(Server{})
}

var namedTypes = []reflect.Type{
	reflect.TypeOf(Inner{}), reflect.TypeOf(Leaf{}), reflect.TypeOf(HttpServer{}),
	reflect.TypeOf(Outer{}), reflect.TypeOf(Tagged{}), reflect.TypeOf(NoName{}),
	localServerA(), localServerB(), localServerC(),
}

// ---- shapes ----

type fspec struct {
	GoName string
	Kind   string // int float string bool struct
	Tag    string
	Sub    *sspec
}

type sspec struct {
	Fields  []fspec
	NamePos int // position of the 'Name string' field, -1 if none
	Named   reflect.Type
	typ     reflect.Type
}

var nameParts = []string{"Type", "Max", "Size", "Host", "Port", "Foo", "Bar", "Http", "URL", "Id", "Count", "Level", "Mode", "Path", "Key", "Val", "Xy", "Q", "Timeout", "Retry", "Addr"}

func foldName(s string) string { return strings.ToLower(strings.ReplaceAll(s, "_", "")) }

func genShape(t *rapid.T, depth int) *sspec {
	s := &sspec{NamePos: -1}
	n := gen.Int(t, 0, 7, "nfields")
	used := map[string]bool{"name": true}
	for i := 0; i < n; i++ {
		var gn string
		for try := 0; ; try++ {
			gn = ""
			for k := gen.Int(t, 1, 3, "nparts"); k > 0; k-- {
				gn += gen.Pick(t, "part", nameParts)
			}
			if !used[foldName(gn)] && !gen.IsKeyword(strings.ToLower(gn)) {
				break
			}
			if try > 20 {
				gn += fmt.Sprintf("X%c", 'a'+i)
				break
			}
		}
		used[foldName(gn)] = true
		f := fspec{GoName: gn}
		kinds := []string{"int", "float", "string", "bool"}
		if depth < 2 {
			kinds = append(kinds, "struct")
		}
		f.Kind = gen.Pick(t, "kind", kinds)
		if f.Kind == "struct" {
			if gen.Chance(t, 30, "namedsub") {
				nt := gen.Pick(t, "namedsubtype", namedTypes[:3]) // Inner, Leaf, HttpServer: no further nesting
				f.Sub = specOf(nt)
				// a named struct type must match the child's block type, so the
				// key is fixed up to folding: either the field is named like the
				// type, or the tag is the key 'type' / 'type.name'
				low := strings.ToLower(nt.Name())
				switch {
				case !used[low] && gen.Chance(t, 40, "samename"):
					f.GoName = nt.Name()
					used[low] = true
				case f.Sub.NamePos >= 0 && gen.Bool(t, "dottedtag"):
					f.Tag = fmt.Sprintf("%s.n%d", low, i)
				case !used["tag:"+low] && !used[low]:
					f.Tag = low
					used["tag:"+low] = true
					used[low] = true
				default:
					f.Kind, f.Sub = "int", nil
				}
			} else {
				f.Sub = genShape(t, depth+1)
			}
		}
		namedSub := f.Sub != nil && f.Sub.Named != nil
		if f.Tag == "" && !namedSub && gen.Chance(t, 25, "tag") {
			f.Tag = fmt.Sprintf("%s_%d%s", gen.Pick(t, "tagstem", []string{"t", "my_key", "K", "x_y"}), i, gen.Pick(t, "tagtail", []string{"", "z", "_"}))
		}
		s.Fields = append(s.Fields, f)
	}
	if gen.Chance(t, 70, "hasname") {
		s.NamePos = gen.Int(t, 0, len(s.Fields), "namepos")
	}
	// a tag that is spelled exactly like another field's Go name: the tag
	// takes precedence for that spelling
	if len(s.Fields) >= 2 && gen.Chance(t, 8, "tagisgoname") {
		i := gen.Uniform(t, len(s.Fields), "tagged")
		j := gen.Uniform(t, len(s.Fields), "namesake")
		if i != j && s.Fields[i].Sub == nil && s.Fields[j].Sub == nil {
			s.Fields[i].Tag = s.Fields[j].GoName
		}
	}
	return s
}

// specOf derives the spec of a declared type.
func specOf(rt reflect.Type) *sspec {
	s := &sspec{NamePos: -1, Named: rt, typ: rt}
	for i := 0; i < rt.NumField(); i++ {
		sf := rt.Field(i)
		if sf.Name == "Name" && sf.Type.Kind() == reflect.String {
			s.NamePos = len(s.Fields)
			continue
		}
		f := fspec{GoName: sf.Name, Tag: sf.Tag.Get("bcl")}
		switch sf.Type.Kind() {
		case reflect.Int:
			f.Kind = "int"
		case reflect.Float64:
			f.Kind = "float"
		case reflect.String:
			f.Kind = "string"
		case reflect.Bool:
			f.Kind = "bool"
		case reflect.Struct:
			f.Kind = "struct"
			f.Sub = specOf(sf.Type)
		}
		s.Fields = append(s.Fields, f)
	}
	return s
}

func (s *sspec) Type() reflect.Type {
	if s.typ != nil {
		return s.typ
	}
	var fs []reflect.StructField
	add := func(f fspec) {
		sf := reflect.StructField{Name: f.GoName}
		switch f.Kind {
		case "int":
			sf.Type = reflect.TypeOf(int(0))
		case "float":
			sf.Type = reflect.TypeOf(float64(0))
		case "string":
			sf.Type = reflect.TypeOf("")
		case "bool":
			sf.Type = reflect.TypeOf(false)
		case "struct":
			sf.Type = f.Sub.Type()
		}
		if f.Tag != "" {
			sf.Tag = reflect.StructTag(`bcl:"` + f.Tag + `"`)
		}
		fs = append(fs, sf)
	}
	for i, f := range s.Fields {
		if i == s.NamePos {
			fs = append(fs, reflect.StructField{Name: "Name", Type: reflect.TypeOf("")})
		}
		add(f)
	}
	if s.NamePos == len(s.Fields) {
		fs = append(fs, reflect.StructField{Name: "Name", Type: reflect.TypeOf("")})
	}
	s.typ = reflect.StructOf(fs)
	return s.typ
}

// ---- spelling and writing ----

// spell draws a member of the folding class of a Go name: random case per
// letter, underscores anywhere; it stays an identifier and is no keyword.
func spell(t *rapid.T, goName string) string {
	for try := 0; ; try++ {
		var sb strings.Builder
		style := gen.Weighted(t, "spellstyle", 28, 23, 18, 23, 8)
		for i, r := range goName {
			c := string(r)
			switch style {
			case 0: // snake case
				if i > 0 && r >= 'A' && r <= 'Z' {
					sb.WriteByte('_')
				}
				sb.WriteString(strings.ToLower(c))
			case 1: // as is
				sb.WriteString(c)
			case 2: // lower
				sb.WriteString(strings.ToLower(c))
			case 4: // upper
				sb.WriteString(strings.ToUpper(c))
			default: // anything goes
				if gen.Chance(t, 20, "us") {
					sb.WriteString(strings.Repeat("_", gen.Int(t, 1, 2, "nus")))
				}
				if gen.Bool(t, "upper") {
					sb.WriteString(strings.ToUpper(c))
				} else {
					sb.WriteString(strings.ToLower(c))
				}
			}
		}
		if style == 3 && gen.Chance(t, 20, "trailus") {
			sb.WriteByte('_')
		}
		s := sb.String()
		if !gen.IsKeyword(s) && s != "NAME" {
			return s
		}
		if try > 10 {
			return "_" + s
		}
	}
}

func intLiteral(t *rapid.T, v int) string {
	switch {
	case v == math.MinInt64:
		return "-9223372036854775807-1"
	case v < 0:
		return "-" + gen.IntSpelling(t, -v)
	}
	return gen.IntSpelling(t, v)
}

func floatLiteral(v float64) string {
	switch {
	case math.IsInf(v, 1):
		return "1/0.0"
	case math.IsInf(v, -1):
		return "-1/0.0"
	}
	neg := math.Signbit(v)
	s := strconv.FormatFloat(math.Abs(v), 'g', -1, 64)
	if !strings.ContainsAny(s, ".e") {
		s += ".0"
	}
	if neg {
		return "-" + s
	}
	return s
}

type bclWriter struct {
	sb     strings.Builder
	indent int
}

func (w *bclWriter) line(format string, a ...any) {
	w.sb.WriteString(strings.Repeat("  ", w.indent))
	fmt.Fprintf(&w.sb, format, a...)
	w.sb.WriteByte('\n')
}

// fill draws a value for v (a settable struct of spec s) and writes the
// block that denotes it. wrongKey plants one key outside the folding class.
// lastBlockName is the name given to the previous named block of the case
// being generated (reset per case).
var lastBlockName string

func fill(t *rapid.T, s *sspec, v reflect.Value, w *bclWriter, btype string, feat map[string]int, wrongKey *bool) {
	name := ""
	if s.NamePos >= 0 && gen.Chance(t, 75, "named") {
		name = gen.StrValue(t, 4)
		// elements of a slice (and blocks anywhere) may carry equal names
		if lastBlockName != "" && gen.Chance(t, 20, "repeatname") {
			name = lastBlockName
			feat["repeated-block-name"]++
		}
		lastBlockName = name
		if name != "" {
			v.FieldByName("Name").SetString(name)
		}
	}
	if name != "" {
		w.line("def %s %s {", btype, gen.StrLit(t, name))
	} else if gen.Bool(t, "emptynamelit") {
		w.line("def %s \"\" {", btype)
	} else {
		w.line("def %s {", btype)
	}
	w.indent++
	// fields in a drawn order (the struct order is not the text order)
	order := make([]int, len(s.Fields))
	for i := range order {
		order[i] = i
	}
	for i := len(order) - 1; i > 0; i-- {
		j := gen.Uniform(t, i+1, "shuffle")
		order[i], order[j] = order[j], order[i]
	}
	for _, i := range order {
		f := s.Fields[i]
		fv := v.FieldByName(f.GoName)
		key := f.Tag
		if key == "" {
			key = spell(t, f.GoName)
			// never a spelling that is somebody's tag (the tag would win)
			for try := 0; try < 20 && hasTag(s, key); try++ {
				key = strings.ToLower(spell(t, f.GoName))
			}
			if key != strings.ToLower(f.GoName) && key != f.GoName {
				feat["noncanonical-key"]++
			}
		} else {
			feat["tag"]++
		}
		if wrongKey != nil && !*wrongKey && f.Kind != "struct" && gen.Chance(t, 30, "wrongkey") {
			key = "zz" + key + "q"
			*wrongKey = true
		}
		// a key that is not written leaves the field at its zero value (for a
		// slice target: whatever the previous element held must be gone)
		if f.Kind != "struct" && wrongKey == nil && gen.Chance(t, 12, "omit") {
			feat["omitted-zero-field"]++
			continue
		}
		switch f.Kind {
		case "int":
			var x int
			switch gen.Weighted(t, "intval", 40, 30, 10, 10, 10) {
			case 0:
				x = gen.Int(t, -5, 5, "small")
			case 1:
				x = rapid.Int().Draw(t, "anyint")
			case 2:
				x = math.MaxInt64
			case 3:
				x = math.MinInt64
			default:
				x = 0
			}
			fv.SetInt(int64(x))
			w.line("%s = %s", key, intLiteral(t, x))
		case "float":
			var x float64
			switch gen.Weighted(t, "floatval", 35, 35, 10, 10, 10) {
			case 0:
				x = float64(gen.Int(t, -8, 8, "fsmall")) / 4
			case 1:
				x = math.Float64frombits(rapid.Uint64().Draw(t, "fbits"))
				if math.IsNaN(x) {
					x = 1.5
				}
			case 2:
				x = math.Inf(gen.Pick(t, "infsign", []int{1, -1}))
			case 3:
				x = math.Copysign(0, -1)
			default:
				x = gen.Pick(t, "fedge", []float64{0, math.MaxFloat64, math.SmallestNonzeroFloat64, -math.MaxFloat64, 1e22, 0.1})
			}
			fv.SetFloat(x)
			w.line("%s = %s", key, floatLiteral(x))
		case "string":
			x := gen.StrValue(t, 6)
			fv.SetString(x)
			w.line("%s = %s", key, gen.StrLit(t, x))
		case "bool":
			x := gen.Bool(t, "boolval")
			fv.SetBool(x)
			w.line("%s = %v", key, x)
		case "struct":
			feat["nested"]++
			// the child block's type: the tag's part before '.', or a spelling
			// of the field name
			ctype := key
			if f.Tag != "" {
				ctype, _, _ = strings.Cut(f.Tag, ".")
			}
			// with a tag 'type.name' the child must carry exactly that name
			if _, nm, has := strings.Cut(f.Tag, "."); has {
				fillNamedChild(t, f.Sub, fv, w, ctype, nm, feat)
			} else if f.Tag != "" {
				// tag equals the whole key, so the child has no name
				fillNoName(t, f.Sub, fv, w, ctype, feat)
			} else {
				fill(t, f.Sub, fv, w, ctype, feat, nil)
			}
		}
	}
	w.indent--
	w.line("}")
}

// fillNoName writes a child that must not have a name (its key is the tag).
func fillNoName(t *rapid.T, s *sspec, v reflect.Value, w *bclWriter, btype string, feat map[string]int) {
	saved := s.NamePos
	s.NamePos = -1
	fill(t, s, v, w, btype, feat, nil)
	s.NamePos = saved
}

// fillNamedChild writes a child whose name is fixed by the tag.
func fillNamedChild(t *rapid.T, s *sspec, v reflect.Value, w *bclWriter, btype, name string, feat map[string]int) {
	// the struct needs a Name field to take the name; specs used with such
	// tags have one
	start := w.sb.Len()
	saved := s.NamePos
	s.NamePos = -1
	fill(t, s, v, w, btype, feat, nil)
	s.NamePos = saved
	// patch the header just written: insert the name
	txt := w.sb.String()
	head := txt[start:]
	i := strings.Index(head, "{")
	fixed := strings.Repeat("  ", w.indent) + fmt.Sprintf("def %s %s ", btype, gen.QuotePlain(name)) + head[i:]
	w.sb.Reset()
	w.sb.WriteString(txt[:start] + fixed)
	if saved >= 0 {
		v.FieldByName("Name").SetString(name)
	}
}

func hasTag(s *sspec, key string) bool {
	for _, f := range s.Fields {
		if f.Tag == key {
			return true
		}
	}
	return false
}

// eqReflect compares two values of the supported family bit for bit.
func eqReflect(a, b reflect.Value) string {
	switch a.Kind() {
	case reflect.Float64:
		if math.Float64bits(a.Float()) != math.Float64bits(b.Float()) {
			return fmt.Sprintf("%v != %v", a.Float(), b.Float())
		}
	case reflect.Struct:
		for i := 0; i < a.NumField(); i++ {
			if d := eqReflect(a.Field(i), b.Field(i)); d != "" {
				return a.Type().Field(i).Name + ": " + d
			}
		}
	case reflect.Slice:
		if a.Len() != b.Len() {
			return fmt.Sprintf("length %d != %d", a.Len(), b.Len())
		}
		for i := 0; i < a.Len(); i++ {
			if d := eqReflect(a.Index(i), b.Index(i)); d != "" {
				return fmt.Sprintf("[%d].%s", i, d)
			}
		}
	default:
		if !reflect.DeepEqual(a.Interface(), b.Interface()) {
			return fmt.Sprintf("%#v != %#v", a.Interface(), b.Interface())
		}
	}
	return ""
}

type caseC05 struct {
	Src      string `json:"src"`
	Type     string `json:"type"`
	Want     string `json:"want"`
	Negative string `json:"negative,omitempty"`
}

func TestC05(t *testing.T) {
	rec := harness.Get("C05")
	if replayPath() != "" {
		t.Skip("C05 replays need the generated type: re-run the check with the seed recorded in the evidence; the replay file holds source, type and expected value for inspection")
	}
	rapid.Check(t, func(t *rapid.T) {
		feat := map[string]int{}
		lastBlockName = ""
		var spec *sspec
		if gen.Chance(t, 30, "namedtop") {
			spec = specOf(gen.Pick(t, "namedtype", namedTypes))
			feat["named-type"]++
		} else {
			spec = genShape(t, 0)
		}
		T := spec.Type()
		// the block type: any spelling when anonymous, a fold of the type name when named
		btype := gen.Pick(t, "btype", []string{"server", "t", "my_block", "Cfg"})
		if spec.Named != nil {
			btype = spell(t, spec.Named.Name())
		}
		negative := ""
		if gen.Chance(t, 10, "negative") {
			negative = gen.Pick(t, "negkind", []string{"typename", "key"})
			if negative == "typename" && spec.Named == nil {
				negative = "key"
			}
		}
		var wrong *bool
		if negative == "key" {
			wrong = new(bool)
		}
		if negative == "typename" {
			btype = "other" + btype
		}
		w := &bclWriter{}
		mode := gen.Pick(t, "bindmode", []string{"struct", "struct-first", "struct-last", "slice-all", "slice-first", "slice-last"})
		if negative == "key" {
			mode = "struct" // the one block written is the one bound
		}
		nblocks := 1
		if mode != "struct" {
			nblocks = gen.Int(t, 1, 4, "nblocks")
			if gen.Chance(t, 4, "manyblocks") {
				// hundreds of constants in one input (constant indices beyond one byte)
				nblocks = gen.Int(t, 40, 120, "manyblocks-n")
				feat["many-blocks"]++
			}
		}
		vals := make([]reflect.Value, nblocks)
		for i := range vals {
			vals[i] = reflect.New(T).Elem()
			fill(t, spec, vals[i], w, btype, feat, wrong)
			// unrelated blocks in between
			if gen.Chance(t, 30, "decoy") {
				w.line("def decoy { x = %d }", i)
			}
		}
		if negative == "key" && !*wrong {
			negative = ""
		}
		var target, want reflect.Value
		switch mode {
		case "struct":
			w.line("bind %s%s -> struct", btype, gen.Pick(t, "sel1", []string{"", ":1"}))
			want = vals[0]
		case "struct-first":
			w.line("bind %s:first -> struct", btype)
			want = vals[0]
		case "struct-last":
			w.line("bind %s:last -> struct", btype)
			want = vals[nblocks-1]
		case "slice-all":
			w.line("bind %s:all -> slice", btype)
			want = reflect.MakeSlice(reflect.SliceOf(T), 0, nblocks)
			for _, v := range vals {
				want = reflect.Append(want, v)
			}
		case "slice-first":
			w.line("bind %s:first -> slice", btype)
			want = reflect.Append(reflect.MakeSlice(reflect.SliceOf(T), 0, 1), vals[0])
		case "slice-last":
			w.line("bind %s:last -> slice", btype)
			want = reflect.Append(reflect.MakeSlice(reflect.SliceOf(T), 0, 1), vals[nblocks-1])
		}
		if strings.HasPrefix(mode, "slice") {
			target = reflect.New(reflect.SliceOf(T))
			// junk that must be discarded
			junk := reflect.MakeSlice(reflect.SliceOf(T), gen.Int(t, 0, 5, "njunk"), 6)
			for i := 0; i < junk.Len(); i++ {
				fillJunk(junk.Index(i), i)
			}
			target.Elem().Set(junk)
			feat["slice-target"]++
		} else {
			target = reflect.New(T)
			// a dirty target: fields not mentioned... all fields are mentioned; start from zero
		}
		src := w.sb.String()
		var err error
		var pan any
		var log strings.Builder
		func() {
			defer func() { pan = recover() }()
			err = bcl.Unmarshal([]byte(src), target.Interface(), bcl.OptLogger(&log), bcl.OptOutput(&log))
		}()
		c := caseC05{Src: src, Type: T.String(), Want: fmt.Sprintf("%+v", want.Interface()), Negative: negative}
		nfields := len(spec.Fields)
		nt := nfields >= 2 && (feat["tag"] > 0 || feat["noncanonical-key"] > 0 || feat["nested"] > 0 || (feat["slice-target"] > 0 && nblocks >= 2))
		feats := append(featList(feat, ""), "mode:"+mode)
		if negative != "" {
			feats = append(feats, "negative:"+negative)
		}
		rec.Case(nt, harness.Hash(src, T.String()), feats...)
		if nt {
			rec.Sample(func() any { return map[string]any{"type": clip(T.String(), 300), "src": clip(src, 400), "mode": mode} })
		}
		switch {
		case pan != nil:
			rec.Fail(t, c, "Unmarshal panicked: %v\ntype %s\nsource:\n%s", pan, T, src)
		case negative != "":
			if err == nil {
				rec.Fail(t, c, "negative control (%s): Unmarshal returned nil\ntype %s\nsource:\n%s", negative, T, src)
			}
		case err != nil:
			rec.Fail(t, c, "Unmarshal failed on a value written per the documented mapping: %v (log %q)\ntype %s\nsource:\n%s", err, log.String(), T, src)
		default:
			if d := eqReflect(target.Elem(), want); d != "" {
				rec.Fail(t, c, "round trip differs at %s\n got: %+v\nwant: %+v\ntype %s\nsource:\n%s", d, target.Elem().Interface(), want.Interface(), T, src)
			}
		}
	})
}

func TestReplayC05(t *testing.T) { replayOnly(t); TestC05(t) }
