package props

import (
	"bytes"
	"fmt"
	"io"
	"strings"

	"pgregory.net/rapid"

	"github.com/wkhere/bcl"

	"verif/gen"
)

// sizeClasses are the lengths at which the encodings change shape: sqlite4
// varint classes (240/241, 2287/2288, 67823/67824), the 96-byte scratch
// buffer and the 4096-byte bufio buffers.
var sizeClasses = []int{0, 1, 2, 94, 95, 96, 97, 239, 240, 241, 242, 2286, 2287, 2288, 2289, 4093, 4094, 4095, 4096, 4097, 4098, 8191, 8192, 8193}
var hugeClasses = []int{67822, 67823, 67824, 67825}

func drawSize(t *rapid.T, label string) int {
	switch gen.Weighted(t, label, 70, 6, 24) {
	case 1:
		return gen.Pick(t, label+"huge", hugeClasses)
	case 2:
		return gen.Int(t, 0, 5000, label+"rand")
	}
	return gen.Pick(t, label+"class", sizeClasses)
}

// longString gives a string value of exactly n bytes with some structure.
func longString(t *rapid.T, n int) string {
	unit := gen.Pick(t, "unit", []string{"x", "ab", "0123456789", "é", "a b#;", "\t"})
	s := strings.Repeat(unit, n/len(unit)+1)
	return s[:n]
}

// collectStrs lists the string literal nodes of a program.
func collectStrs(p *gen.Prog) []*gen.Expr {
	var out []*gen.Expr
	var we func(e *gen.Expr)
	we = func(e *gen.Expr) {
		if e == nil {
			return
		}
		if e.K == "str" {
			out = append(out, e)
		}
		we(e.A)
		we(e.B)
	}
	var ws func(b []*gen.Stmt)
	ws = func(b []*gen.Stmt) {
		for _, s := range b {
			we(s.E)
			ws(s.Body)
		}
	}
	ws(p.Stmts)
	return out
}

func collectDefs(p *gen.Prog) []*gen.Stmt {
	var out []*gen.Stmt
	var ws func(b []*gen.Stmt)
	ws = func(b []*gen.Stmt) {
		for _, s := range b {
			if s.K == "def" {
				out = append(out, s)
				ws(s.Body)
			}
		}
	}
	ws(p.Stmts)
	return out
}

// dumpCase is a program enriched with sizes that cross the encoding classes.
type dumpCase struct {
	caseProg
	Name    string   `json:"name"`    // program name given to Parse
	Pad     int      `json:"pad"`     // bytes of leading comment (pushes source offsets)
	Classes []string `json:"classes"` // which size classes were planted
}

func (c *dumpCase) source() string {
	r := gen.RenderProg(c.Prog)
	src, _ := renderChecked(r.Toks, c.Layout)
	c.Src = src
	return src
}

func genDumpCase(t *rapid.T, cfg gen.ProgCfg) dumpCase {
	p, feat := gen.GenProg(t, cfg)
	c := dumpCase{Name: "n"}
	if gen.Chance(t, 3, "special") {
		var tag string
		p, tag = gen.SpecialProg(t)
		c.Classes = append(c.Classes, tag)
	}
	// long / boundary-sized string constant
	if strs := collectStrs(p); len(strs) > 0 && gen.Chance(t, 45, "longstr") {
		n := drawSize(t, "strsize")
		e := gen.Pick(t, "whichstr", strs)
		e.T = gen.QuotePlain(longString(t, n))
		c.Classes = append(c.Classes, fmt.Sprintf("str:%d", n))
		// further long strings whose sizes are close to the first one's
		for i, k := 0, gen.Weighted(t, "morestrs", 60, 25, 15); i < k; i++ {
			m := n + gen.Pick(t, "sizedelta", []int{-9, -8, -7, -1, 1, 7, 8, 9, 16})
			if m < 0 {
				m = 0
			}
			st := &gen.Stmt{K: "print", E: &gen.Expr{K: "str", T: gen.QuotePlain(longString(t, m))}}
			if gen.Bool(t, "before") {
				p.Stmts = append([]*gen.Stmt{st}, p.Stmts...)
			} else {
				p.Stmts = append(p.Stmts, st)
			}
			c.Classes = append(c.Classes, fmt.Sprintf("str:%d", m))
		}
	} else if gen.Chance(t, 25, "addlongstr") {
		n := drawSize(t, "strsize2")
		p.Stmts = append(p.Stmts, &gen.Stmt{K: "print", E: &gen.Expr{K: "str", T: gen.QuotePlain(longString(t, n))}})
		c.Classes = append(c.Classes, fmt.Sprintf("str:%d", n))
	}
	// long identifier (block type) and long block name
	if defs := collectDefs(p); len(defs) > 0 && gen.Chance(t, 30, "longident") {
		n := drawSize(t, "identsize")
		if n == 0 {
			n = 1
		}
		d := gen.Pick(t, "whichdef", defs)
		d.Name = "t" + strings.Repeat("y", n-1)
		c.Classes = append(c.Classes, fmt.Sprintf("ident:%d", n))
		if gen.Chance(t, 40, "longbname") {
			m := drawSize(t, "bnamesize")
			d.HasBName, d.BNameLit = true, gen.QuotePlain(longString(t, m))
			c.Classes = append(c.Classes, fmt.Sprintf("bname:%d", m))
		}
	}
	// float constants of arbitrary bit patterns are produced by FloatLit
	if gen.Chance(t, 35, "longname") {
		n := drawSize(t, "namesize")
		c.Name = longString(t, n)
		c.Classes = append(c.Classes, fmt.Sprintf("name:%d", n))
	}
	r := gen.RenderProg(p)
	lay := gen.GenLayout(t, r.Toks, gen.LayoutOpts{Plain: 90})
	if gen.Chance(t, 35, "pad") {
		c.Pad = drawSize(t, "padsize")
		lay.Gaps[0] = "#" + strings.Repeat("p", c.Pad) + "\n" + lay.Gaps[0]
		c.Classes = append(c.Classes, fmt.Sprintf("pad:%d", c.Pad))
	}
	if gen.Chance(t, 5, "manylines") {
		// hundreds or thousands of lines: the line table gets as many entries
		n := gen.Pick(t, "nlines", []int{255, 256, 257, 1023, 1024, 1025, 1100, 2047, 2048, 2049, 4097})
		unit := gen.Pick(t, "lineunit", []string{"\n", "\n", " \n", "#x\n"})
		lay.Gaps[0] = strings.Repeat(unit, n) + lay.Gaps[0]
		c.Classes = append(c.Classes, fmt.Sprintf("lines:%d", n))
	}
	src, _ := renderChecked(r.Toks, lay)
	c.caseProg = caseProg{Prog: p, Layout: lay, Src: src, Feat: feat}
	return c
}

func acceptedCfg(t *rapid.T) gen.ProgCfg {
	cfg := gen.DefaultCfg()
	cfg.MaxTop = 8
	cfg.MaxBody = 5
	cfg.MaxDepth = 3
	cfg.ExprDepth = 3
	cfg.PWild = 10
	cfg.Binds = true
	cfg.PDivZero = 8
	cfg.PUnknown = 5
	if gen.Chance(t, 20, "overlap") {
		// block types that are also field names: an unnamed child block can be
		// read back as a value (a Block on the operand stack, printed, compared)
		cfg.Types = []string{"s", "t", "a", "b"}
	}
	return cfg
}

// varintClass of a value: number of bytes of its sqlite4 varint.
func varintClass(v int) int {
	switch {
	case v <= 240:
		return 1
	case v <= 2287:
		return 2
	case v <= 67823:
		return 3
	case v < 1<<24:
		return 4
	}
	return 5
}

// chunkReader hands out data in the given read sizes (cycling), optionally
// returning io.EOF together with the last data.
type chunkReader struct {
	data        []byte
	sizes       []int
	i           int
	eofWithData bool
	reads       int
}

func (c *chunkReader) Read(p []byte) (int, error) {
	c.reads++
	if len(c.data) == 0 {
		return 0, io.EOF
	}
	n := len(p)
	if len(c.sizes) > 0 {
		n = c.sizes[c.i%len(c.sizes)]
		c.i++
	}
	if n > len(p) {
		n = len(p)
	}
	if n > len(c.data) {
		n = len(c.data)
	}
	copy(p, c.data[:n])
	c.data = c.data[n:]
	if len(c.data) == 0 && c.eofWithData {
		return n, io.EOF
	}
	return n, nil
}

// partition kinds for readers of a dump
func drawReadSizes(t *rapid.T, label string) (kind string, sizes []int, eofWithData bool) {
	switch gen.Weighted(t, label, 20, 20, 15, 15, 30) {
	case 0:
		return "whole", nil, false
	case 1:
		return "onebyte", []int{1}, false
	case 2:
		return "half", []int{gen.Int(t, 1, 3, label+"half")}, false
	case 3:
		return "eofwithdata", nil, true
	}
	n := gen.Int(t, 1, 12, label+"n")
	for i := 0; i < n; i++ {
		sizes = append(sizes, gen.Int(t, 1, 300, label+"size"))
	}
	return "random", sizes, gen.Bool(t, label+"eof")
}

type parsed struct {
	prog *bcl.Prog
	err  error
	log  string
	out  string // what parse wrote to the output writer (disassembly, stats)
	dump []byte
	pan  any
}

func parseWhole(src, name string, opts ...bcl.Option) (r parsed) {
	var out, log bytes.Buffer
	defer func() {
		if p := recover(); p != nil {
			r.pan = p
		}
		r.log, r.out = log.String(), out.String()
	}()
	o := append([]bcl.Option{bcl.OptOutput(&out), bcl.OptLogger(&log)}, opts...)
	r.prog, r.err = bcl.Parse([]byte(src), name, o...)
	if r.err == nil {
		var d bytes.Buffer
		if err := r.prog.Dump(&d); err != nil {
			panic("HARNESS-ERROR: Dump to a bytes.Buffer failed: " + err.Error())
		}
		r.dump = d.Bytes()
	}
	return
}

func dumpOf(p *bcl.Prog) (b []byte, pan any, err error) {
	defer func() {
		if r := recover(); r != nil {
			pan = r
		}
	}()
	var d bytes.Buffer
	err = p.Dump(&d)
	return d.Bytes(), nil, err
}

func loadProg(r io.Reader, name string, opts ...bcl.Option) (p *bcl.Prog, err error, pan any) {
	defer func() {
		if x := recover(); x != nil {
			pan = x
		}
	}()
	p, err = bcl.LoadProg(r, name, opts...)
	return
}
