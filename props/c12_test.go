package props

import (
	"bytes"
	"fmt"
	"io"
	"os"
	"path/filepath"
	"reflect"
	"sort"
	"strings"
	"sync"
	"sync/atomic"
	"testing"
	"time"

	"pgregory.net/rapid"

	"github.com/wkhere/bcl"

	"verif/gen"
	"verif/harness"
	"verif/ref"
)

// C12 — concurrent internals and concurrent callers are free of data races.
// This test is meaningful only in the -race build the driver makes for it:
// GORACE=halt_on_error=0 log_path=$VERIF_SCRATCH/race lets the process go on
// and the test reads the new reports after every case.

type caseC12 struct {
	Kind    string     `json:"kind"` // pipeline | callers-distinct | callers-shared
	Input   *inputSpec `json:"input,omitempty"`
	Script  []readStep `json:"script,omitempty"`
	Yields  []action   `json:"yields,omitempty"`
	Sources []string   `json:"sources,omitempty"`
	N       int        `json:"n,omitempty"`
	// callers-shared: the Prog is parsed without OptOutput, so that its output
	// is the library's default (standard output, here redirected to a file)
	DefOut bool `json:"defout,omitempty"`
	// the cold-start scenario (coldStartC12), not a drawn case
	ColdStart bool `json:"cold_start,omitempty"`
}

var raceSeen = map[string]int64{}

// newRaceReports returns race detector reports written since the last call.
func newRaceReports() []string {
	dir := os.Getenv("VERIF_SCRATCH")
	if dir == "" {
		return nil
	}
	files, _ := filepath.Glob(filepath.Join(dir, fmt.Sprintf("race.%d", os.Getpid())))
	var out []string
	for _, fn := range files {
		st, err := os.Stat(fn)
		if err != nil || st.Size() == raceSeen[fn] {
			continue
		}
		b, err := os.ReadFile(fn)
		if err != nil {
			continue
		}
		fresh := string(b[raceSeen[fn]:])
		raceSeen[fn] = int64(len(b))
		parts := strings.Split(fresh, "==================")
		for _, p := range parts {
			if strings.Contains(p, "DATA RACE") {
				out = append(out, strings.TrimSpace(p))
			}
		}
	}
	return out
}

type callResult struct {
	err    string
	log    string
	out    string
	dump   []byte
	blocks string
	bind   string
}

func oneCall(src string, viaFile bool) (r callResult) { return oneCallOpt(src, viaFile, 0) }

// oneCallOpt: optmask bit 0 = disasm, bit 1 = trace, bit 2 = stats.
func oneCallOpt(src string, viaFile bool, optmask int) (r callResult) {
	var out, log lockedBuf
	defer func() {
		if p := recover(); p != nil {
			r.err = fmt.Sprintf("panic: %v", p)
		}
	}()
	opts := []bcl.Option{bcl.OptOutput(&out), bcl.OptLogger(&log), bcl.OptDisasm(optmask&1 != 0), bcl.OptStats(optmask&4 != 0)}
	var p *bcl.Prog
	var err error
	if viaFile {
		p, err = bcl.ParseFile(&scriptFile{data: []byte(src), script: []readStep{{N: 7}, {N: 100}, {N: 1}}, name: "n", racy: true}, opts...)
	} else {
		p, err = bcl.Parse([]byte(src), "n", opts...)
	}
	if err != nil {
		r.err, r.log = err.Error(), log.String()
		return
	}
	var d bytes.Buffer
	p.Dump(&d)
	r.dump = d.Bytes()
	res, b, xerr := bcl.Execute(p, bcl.OptOutput(&out), bcl.OptLogger(&log), bcl.OptTrace(optmask&2 != 0), bcl.OptStats(optmask&4 != 0))
	r.err, r.log, r.out = errStr(xerr), log.String(), out.String()
	r.blocks, r.bind = fmt.Sprintf("%#v", res), fmt.Sprintf("%#v", b)
	return
}

func (a callResult) diff(b callResult) string {
	switch {
	case a.err != b.err:
		return fmt.Sprintf("error %q vs %q", a.err, b.err)
	case a.log != b.log:
		return fmt.Sprintf("log %q vs %q", clip(a.log, 200), clip(b.log, 200))
	case a.out != b.out:
		return fmt.Sprintf("output %q vs %q", clip(a.out, 200), clip(b.out, 200))
	case !bytes.Equal(a.dump, b.dump):
		return "dumps differ"
	case a.blocks != b.blocks:
		return "blocks differ"
	case a.bind != b.bind:
		return "binding differs"
	}
	return ""
}

func checkC12(c caseC12) (viol string, nontrivial bool, feats []string) {
	feats = append(feats, "kind:"+c.Kind)
	switch c.Kind {
	case "pipeline":
		src := c.Input.source()
		var log lockedBuf
		var diagWrites, undeliveredAtDiag int
		f := &scriptFile{data: []byte(src), script: c.Script, name: "f", racy: true}
		f.onRead = func(k int) {
			if k < len(c.Yields) {
				perform(c.Yields[k], new(int64))
			}
		}
		log.onWrite = func() {
			diagWrites++
			f.mu.Lock()
			if len(f.data) > 0 {
				undeliveredAtDiag++
			}
			f.mu.Unlock()
		}
		done := make(chan error, 1)
		go func() {
			// statistics and listing are produced by the parser goroutine too
			var sink lockedBuf
			_, err := bcl.ParseFile(f, bcl.OptLogger(&log), bcl.OptOutput(&sink), bcl.OptStats(c.N%2 == 1), bcl.OptDisasm(c.N%3 == 1))
			done <- err
		}()
		var err error
		select {
		case err = <-done:
		case <-time.After(30 * time.Second):
			return "ParseFile did not return within 30 s", false, feats
		}
		// let goroutines that outlive the call (if any) show themselves
		time.Sleep(2 * time.Millisecond)
		if !f.sentErr {
			whole := parseWhole(src[:f.delivered], "f")
			if f.delivered == len(src) && ((whole.err == nil) != (err == nil) || whole.log != log.String()) {
				return fmt.Sprintf("pipeline result differs from the sequential parse: err %v vs %v", err, whole.err), false, feats
			}
		}
		nontrivial = undeliveredAtDiag >= 6 // >= 2 diagnostics (3 writes each) while later chunks were undelivered
		if nontrivial {
			feats = append(feats, "pipeline:diagnostics-while-reading")
		}
		if f.sentErr {
			feats = append(feats, "pipeline:read-error")
		}
	case "callers-distinct":
		seq := make([]callResult, len(c.Sources))
		for i, s := range c.Sources {
			seq[i] = oneCallOpt(s, i%3 == 2, (i+c.N)%8)
		}
		con := make([]callResult, len(c.Sources))
		var wg sync.WaitGroup
		start := make(chan struct{})
		for i, s := range c.Sources {
			wg.Add(1)
			go func(i int, s string) {
				defer wg.Done()
				<-start
				con[i] = oneCallOpt(s, i%3 == 2, (i+c.N)%8)
			}(i, s)
		}
		close(start)
		wg.Wait()
		for i := range seq {
			if d := seq[i].diff(con[i]); d != "" {
				return fmt.Sprintf("caller %d of %d: concurrent result differs from the sequential one: %s\nsource: %q", i, len(seq), d, clip(c.Sources[i], 300)), false, feats
			}
		}
		nontrivial = len(c.Sources) >= 2
	case "callers-shared":
		src := c.Sources[0]
		var out, log lockedBuf
		var p *bcl.Prog
		var err error
		var stdoutFile *os.File
		if c.DefOut {
			// os.Stdout is safe for concurrent use, as the property requires of
			// the writer; whatever the library puts in front of it must be too
			f, ferr := os.CreateTemp(os.Getenv("VERIF_SCRATCH"), "c12-stdout-*")
			must(ferr)
			defer os.Remove(f.Name())
			defer f.Close()
			stdoutFile = f
			saved := os.Stdout
			os.Stdout = f
			p, err = bcl.Parse([]byte(src), "n", bcl.OptLogger(&log))
			os.Stdout = saved
			feats = append(feats, "shared:default-output")
		} else {
			p, err = bcl.Parse([]byte(src), "n", bcl.OptOutput(&out), bcl.OptLogger(&log))
		}
		if err != nil {
			return "", false, append(feats, "skipped:not-accepted")
		}
		readOut := func() string {
			if stdoutFile == nil {
				return out.String()
			}
			b, rerr := os.ReadFile(stdoutFile.Name())
			must(rerr)
			return string(b)
		}
		// every run (the sequential one too) with the same options: every
		// second case traces, each caller into a writer of its own
		xopts := func() []bcl.Option {
			if c.N%2 == 0 && !c.DefOut {
				var own lockedBuf
				return []bcl.Option{bcl.OptTrace(true), bcl.OptStats(true), bcl.OptOutput(&own)}
			}
			return nil
		}
		res0, b0, err0 := bcl.Execute(p, xopts()...)
		out0, log0 := readOut(), log.String()
		type r struct {
			blocks, bind, err string
		}
		want := r{fmt.Sprintf("%#v", res0), fmt.Sprintf("%#v", b0), errStr(err0)}
		got := make([]r, c.N)
		var wg sync.WaitGroup
		start := make(chan struct{})
		for i := 0; i < c.N; i++ {
			wg.Add(1)
			go func(i int) {
				defer wg.Done()
				<-start
				res, b, err := bcl.Execute(p, xopts()...)
				got[i] = r{fmt.Sprintf("%#v", res), fmt.Sprintf("%#v", b), errStr(err)}
			}(i)
		}
		close(start)
		wg.Wait()
		for i, g := range got {
			if g != want {
				return fmt.Sprintf("Execute %d of %d on a shared Prog: result differs from the sequential run: %v vs %v", i, c.N, g, want), false, feats
			}
		}
		// the writers got N+1 copies of the lines, in some interleaving (a
		// trace line is made of several writes, so traced runs interleave
		// within lines and are compared by their results only)
		wantLines := sortedLines(strings.Repeat(out0, c.N+1))
		if gl := sortedLines(readOut()); (c.N%2 != 0 || c.DefOut) && strings.Join(gl, "\n") != strings.Join(wantLines, "\n") {
			return fmt.Sprintf("output of %d concurrent runs is not %d copies of the sequential output", c.N, c.N), false, feats
		}
		if strings.Count(log.String(), "WARNING") != strings.Count(log0, "WARNING")*(c.N+1) {
			return "warnings of concurrent runs are not N copies of the sequential ones", false, feats
		}
		nontrivial = c.N >= 2
		if err0 != nil {
			feats = append(feats, "shared:runtime-error")
		}
		if log0 != "" {
			feats = append(feats, "shared:warnings")
		}
	}
	if c.Kind == "callers-bind" {
		// every caller unmarshals into struct types nobody has bound before
		// (tags included), so caches keyed by type are populated concurrently
		var wg sync.WaitGroup
		start := make(chan struct{})
		errs := make([]string, c.N)
		for i := 0; i < c.N; i++ {
			wg.Add(1)
			go func(i int) {
				defer wg.Done()
				<-start
				for k := 0; k < 6; k++ {
					T := reflect.StructOf([]reflect.StructField{
						{Name: "Name", Type: reflect.TypeOf("")},
						{Name: fmt.Sprintf("F%d", k), Type: reflect.TypeOf(0), Tag: reflect.StructTag(fmt.Sprintf(`bcl:"tag_%d_%d_%d"`, c.N, i, k))},
						{Name: "Plain", Type: reflect.TypeOf("")},
						{Name: fmt.Sprintf("Pad%d", bindSerialFor(i, k)), Type: reflect.TypeOf(false)},
					})
					tgt := reflect.New(T)
					src := fmt.Sprintf("def t \"n%d\" { tag_%d_%d_%d = %d; plain = \"p\" }\nbind t -> struct\n", i, c.N, i, k, i*100+k)
					if err := bcl.Unmarshal([]byte(src), tgt.Interface(), bcl.OptOutput(io.Discard), bcl.OptLogger(io.Discard)); err != nil {
						errs[i] = err.Error()
					} else if got := tgt.Elem().Field(1).Int(); got != int64(i*100+k) {
						errs[i] = fmt.Sprintf("field holds %d, want %d", got, i*100+k)
					}
				}
			}(i)
		}
		close(start)
		wg.Wait()
		for i, e := range errs {
			if e != "" {
				return fmt.Sprintf("concurrent Unmarshal %d of %d: %s", i, c.N, e), false, feats
			}
		}
		nontrivial = c.N >= 2
	}
	for _, rep := range newRaceReports() {
		if strings.Contains(rep, "github.com/wkhere/bcl") {
			return "data race reported by the Go race detector:\n" + clip(rep, 2500), nontrivial, feats
		}
		panic("HARNESS-ERROR: race report without library frames:\n" + clip(rep, 1500))
	}
	return "", nontrivial, feats
}

// bindSerialFor makes the generated struct types differ from run to run
// (types are cached by the runtime for the life of the process).
func bindSerialFor(i, k int) int64 { return atomic.AddInt64(&bindCounter, 1) }

var bindCounter int64

func sortedLines(s string) []string {
	l := strings.Split(s, "\n")
	sort.Strings(l)
	return l
}

func genC12(t *rapid.T) caseC12 {
	var c caseC12
	switch gen.Weighted(t, "kind", 40, 20, 25, 15) {
	case 3:
		c.Kind = "callers-bind"
		c.N = gen.Int(t, 2, 12, "ncallers")
		return c
	case 0:
		c.Kind = "pipeline"
		in := inputSpec{LexAt: -1, Wide: gen.Bool(t, "wide")}
		in.Lines = gen.Int(t, 20, 3000, "lines")
		switch gen.Weighted(t, "inclass", 55, 15, 15, 15) {
		case 0: // syntax errors spread over many chunks
			for l := gen.Int(t, 0, 10, "first"); l < in.Lines; l += gen.Int(t, 1, 60, "step") {
				in.ErrAt = append(in.ErrAt, l)
			}
		case 1: // valid
		case 2: // early lexical failure
			in.LexAt = gen.Int(t, 0, 20, "lexline")
		case 3: // errors and a late lexical failure
			in.ErrAt = []int{gen.Int(t, 0, in.Lines-1, "errline"), gen.Int(t, 0, in.Lines-1, "errline2")}
			in.LexAt = in.Lines - 1
		}
		c.Input = &in
		c.N = gen.Int(t, 0, 5, "optphase")
		// many small chunks so that the lexer is still appending newlines of
		// later chunks while the parser formats diagnostics
		for i, n := 0, gen.Int(t, 2, 60, "nreads"); i < n; i++ {
			c.Script = append(c.Script, readStep{N: gen.Pick(t, "size", []int{1, 7, 64, 300, 1000, 4096})})
		}
		if gen.Chance(t, 25, "readerror") {
			k := gen.Int(t, 1, len(c.Script), "failat")
			c.Script = append(c.Script[:k:k], readStep{Err: "fail"})
		}
		for i, n := 0, gen.Int(t, 0, 20, "nyields"); i < n; i++ {
			c.Yields = append(c.Yields, action{Kind: gen.Pick(t, "ykind", []string{"", "yield", "sleep"}), N: gen.Int(t, 1, 50, "yn")})
		}
	case 1:
		c.Kind = "callers-distinct"
		c.N = gen.Int(t, 0, 7, "optphase")
		n := gen.Int(t, 2, 16, "ncallers")
		for i := 0; i < n; i++ {
			c.Sources = append(c.Sources, srcFor12(t, true))
		}
	default:
		c.Kind = "callers-shared"
		c.N = gen.Int(t, 2, 16, "ncallers")
		c.Sources = []string{srcFor12(t, false)}
		c.DefOut = gen.Chance(t, 30, "defout")
	}
	return c
}

// srcFor12 draws a program source; shared programs are biased to fail or warn
// on a line >= 2 so that positions are formatted concurrently.
func srcFor12(t *rapid.T, mayBeInvalid bool) string {
	cfg := gen.DefaultCfg()
	cfg.MaxTop, cfg.MaxBody, cfg.MaxDepth, cfg.ExprDepth = 8, 4, 2, 3
	cfg.Binds = true
	cfg.PDivZero = 40
	cfg.PUnknown = 15
	cfg.WVar, cfg.WAsg, cfg.WPrint, cfg.WDef, cfg.WBind = 20, 15, 25, 20, 20
	if mayBeInvalid {
		cfg.PIllegal = 20
	}
	for try := 0; ; try++ {
		p, _ := gen.GenProg(t, cfg)
		o := ref.Run(p)
		if o.Unspecified != "" || (!mayBeInvalid && o.Compile != nil) {
			if try < 10 {
				continue
			}
			return "print 1\nprint 1/0\n"
		}
		toks := gen.RenderProg(p).Toks
		src, _ := gen.Render(toks, gen.SimpleLayout(toks))
		return src
	}
}

// coldStartC12 makes the very first calls into the library of this process
// concurrent ones: twelve goroutines, released together, each parse (whole or
// through ParseFile), dump, load, execute and unmarshal an input of their own.
// Whatever the library initialises on first use (tables, caches, defaults) is
// then initialised under contention; later cases can never see that again.
func coldStartC12(t *testing.T, rec *harness.Rec) {
	const n = 12
	var wg sync.WaitGroup
	start := make(chan struct{})
	outs := make([]string, n)
	for i := 0; i < n; i++ {
		wg.Add(1)
		go func(i int) {
			defer wg.Done()
			src := fmt.Sprintf("var a = %d\ndef srv \"n%d\" { port = a + 1; on = not a; tag = \"t\" + a }\nbind srv -> struct\nprint a * 2 < 3 or a\n", i, i)
			var out, log bytes.Buffer
			<-start
			var p *bcl.Prog
			var err error
			if i%3 == 0 {
				p, err = bcl.ParseFile(&scriptFile{data: []byte(src), script: []readStep{{N: 7}, {N: 0}, {N: 30}}, name: "n"}, bcl.OptOutput(&out), bcl.OptLogger(&log))
			} else {
				p, err = bcl.Parse([]byte(src), "n", bcl.OptOutput(&out), bcl.OptLogger(&log), bcl.OptDisasm(i%2 == 0))
			}
			if err != nil {
				outs[i] = "parse: " + err.Error()
				return
			}
			var d bytes.Buffer
			p.Dump(&d)
			q, err := bcl.LoadProg(bytes.NewReader(d.Bytes()), "n", bcl.OptOutput(&out), bcl.OptLogger(&log))
			if err != nil {
				outs[i] = "load: " + err.Error()
				return
			}
			bcl.Execute(q, bcl.OptTrace(i%4 == 1), bcl.OptStats(i%4 == 2), bcl.OptOutput(&out))
			var tgt struct {
				Name string
				Port int
				On   bool
				Tag  string
			}
			if err := bcl.Unmarshal([]byte(src), &tgt, bcl.OptOutput(&out), bcl.OptLogger(&log)); err != nil {
				outs[i] = "unmarshal: " + err.Error()
				return
			}
			outs[i] = fmt.Sprintf("%+v", tgt)
		}(i)
	}
	close(start)
	wg.Wait()
	for i, o := range outs {
		if want := fmt.Sprintf("{Name:n%d Port:%d On:%v Tag:t%d}", i, i+1, i == 0, i); o != want {
			rec.Fail(t, caseC12{ColdStart: true}, "cold start, caller %d of %d concurrent first callers: got %s, want %s", i, n, o, want)
		}
	}
	rec.Case(true, harness.Hash("cold-start", os.Getpid()), "kind:cold-start")
	for _, rep := range newRaceReports() {
		if strings.Contains(rep, "github.com/wkhere/bcl") {
			rec.Fail(t, caseC12{ColdStart: true}, "cold start (the first calls into the library in this process are concurrent): data race\n%s", clip(rep, 3000))
		}
	}
}

func TestC12(t *testing.T) {
	rec := harness.Get("C12")
	if path := replayPath(); path != "" {
		var c caseC12
		must(harness.LoadReplay(path, &c))
		if c.ColdStart {
			// a replay is a fresh process: the scenario is its first use of the library
			newRaceReports()
			coldStartC12(t, rec)
			return
		}
		for i := 0; i < 20; i++ {
			if viol, _, _ := checkC12(c); viol != "" {
				rec.Fail(t, c, "%s", viol)
			}
		}
		return
	}
	newRaceReports()
	coldStartC12(t, rec)
	rapid.Check(t, func(t *rapid.T) {
		c := genC12(t)
		viol, nt, feats := checkC12(c)
		rec.Case(nt, harness.Hash(fmt.Sprintf("%+v %+v", c, c.Input)), feats...)
		if nt {
			rec.Sample(func() any {
				m := map[string]any{"kind": c.Kind, "n": c.N}
				if c.Input != nil {
					m["input"] = c.Input.short()
					m["reads"] = clipSteps(c.Script)
				}
				if len(c.Sources) > 0 {
					m["first_source"] = clip(c.Sources[0], 200)
					m["callers"] = len(c.Sources)
				}
				return m
			})
		}
		if viol != "" {
			rec.Fail(t, c, "%s", viol)
		}
	})
}

func TestReplayC12(t *testing.T) { replayOnly(t); TestC12(t) }
