#!/bin/bash
# Builds the framework offline from files on disk: warms the Go build cache for the
# test binaries (plain and -race) and the CLI.
set -e
cd "$(dirname "$0")"
export GOFLAGS=-mod=mod GOPROXY=off GOSUMDB=off GOTOOLCHAIN=local
mkdir -p .build evidence replays
go test -c -tags verif -o .build/props.test ./props
go test -c -tags verif -race -o .build/props.race.test ./props
(cd /repo && go build -tags verif -o /verif/.build/bcl ./cmd/bcl)
echo setup ok
