package gen

import (
	"math"
	"strconv"
	"strings"

	"pgregory.net/rapid"
)

// ProgCfg steers the program generator. Percentages are 0..100.
type ProgCfg struct {
	MaxTop       int      // max toplevel statements
	MaxBody      int      // max statements per block body
	MaxDepth     int      // max block nesting
	ExprDepth    int      // max expression depth
	Names        []string // variable / field name pool
	Types        []string // block type pool
	BNames       []string // block name literals (quoted), "" entry = no name
	PWild        int      // percent of expressions generated without type direction
	PIllegal     int      // percent of programs that get one statically illegal shape
	PUnknown     int      // percent chance (per program) of one unknown-name read inside a block
	PDivZero     int      // percent of programs with an injected division by zero
	PDupChild    int      // percent chance that a child block may reuse a key of its parent
	Binds        bool     // emit bind statements
	PBadBind     int      // percent of programs with one illegal bind
	PrintState   bool     // print every visible name after blocks close and at the end
	PEmbedAsg    int      // percent of compound expressions that may embed an assignment
	PPar         int      // percent chance of redundant parentheses around a sub-expression
	LongStr      bool     // allow strings longer than a few characters
	PlainStr     bool     // strings restricted to letters/spaces/punctuation without digits and newlines
	NoFloat      bool
	PBadLit      int  // percent of int/float/string literals that are lexically fine but malformed or out of range
	BindInBlocks bool // bind statements also inside block bodies (the implementation accepts them)
	PShort       int  // percent of compound expressions that are and/or (0 = default 15)
	PPrelude     int  // percent of programs that start with 0..300 unrelated declarations (shifts every slot and constant index)
	// statement kind weights: var, assignment, print, def, bind (bind only
	// at toplevel and with Binds); zero value = defaults
	WVar, WAsg, WPrint, WDef, WBind int
}

var DefaultNames = []string{"a", "b", "c", "d", "e"}
var DefaultTypes = []string{"s", "t", "u"}
var DefaultBNames = []string{"", "", `"a"`, `"b"`, `"a b"`, `"\x41"`, `"q\"r"`, `"é"`, `"x.y"`, `" "`, `"NAME"`}

func DefaultCfg() ProgCfg {
	return ProgCfg{
		MaxTop: 8, MaxBody: 6, MaxDepth: 3, ExprDepth: 4,
		Names: DefaultNames, Types: DefaultTypes, BNames: DefaultBNames,
		PWild: 15, PIllegal: 0, PUnknown: 0, PDivZero: 0, PDupChild: 5,
		Binds: false, PrintState: false, PEmbedAsg: 15, PPar: 10, PPrelude: 5,
	}
}

type varT struct{ name, ty string }

type blockEnv struct {
	fields map[string]string // believed type of fields assigned so far
	keys   map[string]bool   // child keys and field names in use
	typ    string
}

// PG is the state of one program generation.
type PG struct {
	T      *rapid.T
	C      ProgCfg
	scopes [][]varT
	blocks []*blockEnv
	// toplevel blocks completed so far, by type (for bind)
	done map[string]int
	// one-shot injections still to place
	wantIllegal, wantUnknown, wantDivZero, wantBadBind bool
	// Feature flags of the generated program.
	Feat map[string]int
}

var valueTypes = []string{"int", "float", "str", "bool", "nil"}

func (g *PG) feat(k string) { g.Feat[k]++ }

func (g *PG) inBlock() bool { return len(g.blocks) > 0 }

// resolve gives what a name denotes right now: ("var", ty), ("field", ty)
// or ("", "").
func (g *PG) resolve(name string) (kind, ty string) {
	for i := len(g.scopes) - 1; i >= 0; i-- {
		sc := g.scopes[i]
		for j := len(sc) - 1; j >= 0; j-- {
			if sc[j].name == name {
				return "var", sc[j].ty
			}
		}
	}
	for i := len(g.blocks) - 1; i >= 0; i-- {
		if ty, ok := g.blocks[i].fields[name]; ok {
			return "field", ty
		}
	}
	return "", ""
}

func (g *PG) setType(name, ty string) {
	for i := len(g.scopes) - 1; i >= 0; i-- {
		sc := g.scopes[i]
		for j := len(sc) - 1; j >= 0; j-- {
			if sc[j].name == name {
				sc[j].ty = ty
				return
			}
		}
	}
	if g.inBlock() {
		b := g.blocks[len(g.blocks)-1]
		b.fields[name] = ty
		b.keys[name] = true
	}
}

// readable lists the names that currently read as a value believed to be of
// type ty ("?" matches everything).
func (g *PG) readable(ty string) []string {
	var out []string
	for _, n := range g.C.Names {
		k, t := g.resolve(n)
		if k != "" && (ty == "?" || t == ty) {
			out = append(out, n)
		}
	}
	return out
}

// assignable lists the names an assignment can target without a compile
// error: visible variables, and inside a block any name (a field).
func (g *PG) assignable() []string {
	if g.inBlock() {
		return g.C.Names
	}
	var out []string
	for _, n := range g.C.Names {
		if k, _ := g.resolve(n); k == "var" {
			out = append(out, n)
		}
	}
	return out
}

func (g *PG) pickType() string {
	w := []int{35, 20, 20, 15, 10}
	if g.C.NoFloat {
		w[1] = 0
	}
	return valueTypes[Weighted(g.T, "type", w...)]
}

func (g *PG) strLit() *Expr {
	var v string
	if g.C.PlainStr {
		n := Int(g.T, 0, 6, "pslen")
		if Chance(g.T, 8, "pslong") {
			// tens of characters, many of them of several bytes
			n = Int(g.T, 20, 60, "pslen2")
		}
		for i := 0; i < n; i++ {
			v += Pick(g.T, "psch", []string{"a", "b", "Z", " ", "-", "_", "#", ";", "(", "{", "é", "é", "日", "😀"})
		}
		return &Expr{K: "str", T: QuotePlain(v)}
	}
	max := 6
	if g.C.LongStr {
		max = 40
	}
	v = StrValue(g.T, max)
	return &Expr{K: "str", T: StrLit(g.T, v)}
}

func (g *PG) literal(ty string) *Expr {
	if g.C.PBadLit > 0 && Chance(g.T, g.C.PBadLit, "badlit") {
		tk := Pick(g.T, "badlittok", HostileLiterals)
		g.feat("malformed-literal")
		switch {
		case tk.K == KStr:
			return &Expr{K: "str", T: tk.S}
		case strings.ContainsAny(tk.S, ".eE") && !strings.HasPrefix(tk.S, "0x") && !strings.HasPrefix(tk.S, "0X"):
			return &Expr{K: "float", T: tk.S}
		}
		return &Expr{K: "int", T: tk.S}
	}
	switch ty {
	case "int":
		s, _ := IntLit(g.T)
		return &Expr{K: "int", T: s}
	case "float":
		return &Expr{K: "float", T: FloatLit(g.T)}
	case "str":
		return g.strLit()
	case "bool":
		if Bool(g.T, "boolval") {
			return &Expr{K: "true"}
		}
		return &Expr{K: "false"}
	}
	return &Expr{K: "nil"}
}

func (g *PG) leaf(ty string) *Expr {
	if ty == "?" {
		ty = g.pickType()
	}
	if Chance(g.T, 45, "readname") {
		if names := g.readable(ty); len(names) > 0 {
			return &Expr{K: "id", T: Pick(g.T, "name", names)}
		}
	}
	if ty == "str" && g.inBlock() && Chance(g.T, 10, "typename") {
		return &Expr{K: "id", T: Pick(g.T, "tn", []string{"TYPE", "NAME"})}
	}
	return g.literal(ty)
}

func (g *PG) maybePar(e *Expr) *Expr {
	if g.C.PPar > 0 && Chance(g.T, g.C.PPar, "par") {
		return &Expr{K: "par", A: e}
	}
	return e
}

// Expr draws an expression believed to evaluate to type ty ("?" = any)
// without a runtime error, unless the wild path is taken.
func (g *PG) Expr(ty string, d int) *Expr {
	if d > 0 && Chance(g.T, g.C.PWild, "wild") {
		g.feat("wild")
		return g.wild(d)
	}
	return g.maybePar(g.typed(ty, d))
}

func (g *PG) embedAsg(ty string, d int) *Expr {
	names := g.assignable()
	if len(names) == 0 {
		return nil
	}
	n := Pick(g.T, "asgname", names)
	v := g.typed(ty, d-1)
	// the assignment may be skipped by a short circuit: the believed type
	// of n becomes unknown for later statements
	g.setType(n, "?")
	g.feat("embedasg")
	return &Expr{K: "asg", T: n, A: v}
}

func (g *PG) typed(ty string, d int) *Expr {
	if ty == "?" {
		ty = g.pickType()
	}
	if d <= 0 || Chance(g.T, 20, "leaf") {
		return g.leaf(ty)
	}
	if Chance(g.T, g.C.PEmbedAsg, "embed") {
		if e := g.embedAsg(ty, d); e != nil {
			return e
		}
	}
	sub := func(t string) *Expr { return g.maybePar(g.typed(t, d-1)) }
	bin := func(op string, a, b *Expr) *Expr { return &Expr{K: "bin", T: op, A: a, B: b} }
	numT := func() string {
		if g.C.NoFloat {
			return "int"
		}
		return Pick(g.T, "numt", []string{"int", "float"})
	}
	// short circuit forms keep the type when both operands have it
	ps := g.C.PShort
	if ps == 0 {
		ps = 15
	}
	if Chance(g.T, ps, "shortcircuit") {
		k := Pick(g.T, "sc", []string{"and", "or"})
		g.feat(k)
		return &Expr{K: k, A: sub(ty), B: sub(ty)}
	}
	switch ty {
	case "int":
		switch Weighted(g.T, "intform", 50, 15, 20, 15) {
		case 0:
			return bin(Pick(g.T, "op", []string{"+", "-", "*"}), sub("int"), sub("int"))
		case 1:
			// divisor mostly a non-zero literal
			var dv *Expr
			if Chance(g.T, 85, "safediv") {
				dv = &Expr{K: "int", T: IntSpelling(g.T, Int(g.T, 1, 9, "divisor"))}
			} else {
				dv = sub("int")
			}
			return bin("/", sub("int"), dv)
		case 2:
			return &Expr{K: Pick(g.T, "sign", []string{"neg", "pos"}), A: sub("int")}
		default:
			return sub("int")
		}
	case "float":
		switch Weighted(g.T, "floatform", 30, 25, 25, 20) {
		case 0:
			return bin(Pick(g.T, "op", []string{"+", "-", "*", "/"}), sub("float"), sub("float"))
		case 1:
			return bin(Pick(g.T, "op", []string{"+", "-", "*"}), sub("int"), sub("float"))
		case 2:
			return bin(Pick(g.T, "op", []string{"+", "-", "*"}), sub("float"), sub("int"))
		default:
			return &Expr{K: Pick(g.T, "sign", []string{"neg", "pos"}), A: sub("float")}
		}
	case "str":
		switch Weighted(g.T, "strform", 40, 20, 15, 10, 15) {
		case 0:
			return bin("+", sub("str"), sub("str"))
		case 1:
			return bin("+", sub("str"), sub("int"))
		case 2:
			if g.C.NoFloat {
				return bin("+", sub("str"), sub("int"))
			}
			return bin("+", sub("str"), sub("float"))
		case 3:
			return bin("+", sub("str"), sub("nil"))
		default:
			// repetition: the count mostly a small literal, sometimes negative
			// (a runtime error, also for the empty string), computed or a name
			left := sub("str")
			if Chance(g.T, 15, "emptyleft") {
				left = Pick(g.T, "emptyform", []*Expr{{K: "str", T: `""`}, {K: "bin", T: "*", A: &Expr{K: "str", T: `"x"`}, B: &Expr{K: "int", T: "0"}}})
			}
			lit := func(lo, hi int) *Expr { return &Expr{K: "int", T: IntSpelling(g.T, Int(g.T, lo, hi, "rep"))} }
			switch Weighted(g.T, "repform", 65, 10, 10, 15) {
			case 0:
				return bin("*", left, lit(0, 3))
			case 1:
				return bin("*", left, &Expr{K: "neg", A: lit(0, 3)})
			case 2:
				return bin("*", left, &Expr{K: "par", A: bin("-", lit(0, 3), lit(0, 3))})
			default:
				return bin("*", left, g.leaf("int"))
			}
		}
	case "bool":
		if !g.C.NoFloat && Chance(g.T, 4, "bigeq") {
			// equality and ordering across int and float beyond 2^53, where
			// the int is not exactly representable: promotion decides
			v := Pick(g.T, "bigint", []int{1<<53 + 1, 1<<53 + 2, 1<<53 - 1, 1<<62 + 1, 9223372036854775807, 1 << 53})
			f := float64(v)
			if Chance(g.T, 30, "neighbour") {
				f = math.Nextafter(f, 0)
			}
			fl := &Expr{K: "float", T: strconv.FormatFloat(f, 'f', 1, 64)}
			il := &Expr{K: "int", T: IntSpelling(g.T, v)}
			op := Pick(g.T, "bigeqop", []string{"==", "!=", "<", ">", "<=", ">="})
			if Bool(g.T, "intleft") {
				return bin(op, il, fl)
			}
			return bin(op, fl, il)
		}
		switch Weighted(g.T, "boolform", 25, 25, 20, 15, 15) {
		case 0:
			return &Expr{K: "not", A: sub("?")}
		case 1:
			return bin(Pick(g.T, "eqop", []string{"==", "!="}), sub("?"), sub("?"))
		case 2:
			return bin(Pick(g.T, "cmpop", []string{"<", ">", "<=", ">="}), sub(numT()), sub(numT()))
		case 3:
			return bin(Pick(g.T, "cmpop", []string{"<", ">", "<=", ">="}), sub("str"), sub("str"))
		default:
			t := g.pickType()
			return bin(Pick(g.T, "eqop", []string{"==", "!="}), sub(t), sub(t))
		}
	}
	// nil
	if Chance(g.T, 50, "nilform") {
		return &Expr{K: "and", A: sub("nil"), B: sub("?")}
	}
	return &Expr{K: "nil"}
}

var allBinOps = []string{"+", "-", "*", "/", "==", "!=", "<", ">", "<=", ">="}

// wild draws an expression without regard to types.
func (g *PG) wild(d int) *Expr {
	if d <= 0 || Chance(g.T, 25, "wleaf") {
		return g.leaf("?")
	}
	sub := func() *Expr { return g.maybePar(g.wild(d - 1)) }
	switch Weighted(g.T, "wform", 50, 10, 10, 10, 10, 10) {
	case 0:
		return &Expr{K: "bin", T: Pick(g.T, "wop", allBinOps), A: sub(), B: sub()}
	case 1:
		return &Expr{K: "and", A: sub(), B: sub()}
	case 2:
		return &Expr{K: "or", A: sub(), B: sub()}
	case 3:
		return &Expr{K: "not", A: sub()}
	case 4:
		return &Expr{K: Pick(g.T, "wsign", []string{"neg", "pos"}), A: sub()}
	default:
		if e := g.embedAsg("?", d); e != nil {
			return e
		}
		return sub()
	}
}

// ---------- statements ----------

func (g *PG) declaredHere(name string) bool {
	sc := g.scopes[len(g.scopes)-1]
	for _, v := range sc {
		if v.name == name {
			return true
		}
	}
	return false
}

func (g *PG) varStmt() *Stmt {
	// a name not yet declared in this scope
	var free []string
	for _, n := range g.C.Names {
		if !g.declaredHere(n) {
			free = append(free, n)
		}
	}
	if len(free) == 0 {
		return nil
	}
	n := Pick(g.T, "varname", free)
	s := &Stmt{K: "var", Name: n}
	ty := "nil"
	if Chance(g.T, 75, "hasinit") {
		ty = g.pickType()
		if k, _ := g.resolve(n); k != "" && Chance(g.T, 30, "selfinit") {
			// var x = x + ... reads the outer x
			g.feat("selfinit")
			_, oty := g.resolve(n)
			if oty == "int" || oty == "str" {
				ty = oty
				s.E = &Expr{K: "bin", T: "+", A: &Expr{K: "id", T: n}, B: g.typed(oty, 1)}
			}
		}
		if s.E == nil {
			s.E = g.Expr(ty, g.C.ExprDepth)
		}
	}
	if k, _ := g.resolve(n); k != "" {
		g.feat("shadow")
	}
	sc := &g.scopes[len(g.scopes)-1]
	*sc = append(*sc, varT{n, ty})
	return s
}

// exprStmts: a statement that is an arbitrary expression (not an assignment
// at the top), typically a short-circuit whose right arm assigns; followed
// by a statement that reads the assigned name straight away.
func (g *PG) exprStmts() []*Stmt {
	names := g.assignable()
	k := "eval"
	if g.inBlock() && Bool(g.T, "bare") {
		k = "expr"
	}
	if len(names) == 0 || Chance(g.T, 30, "plainexpr") {
		return []*Stmt{{K: k, E: g.Expr("?", g.C.ExprDepth)}}
	}
	n := Pick(g.T, "sctarget", names)
	ty := g.pickType()
	asg := &Expr{K: "asg", T: n, A: g.typed(ty, 1)}
	op := Pick(g.T, "scop", []string{"and", "or"})
	e := &Expr{K: op, A: g.typed("?", 1), B: asg}
	if Chance(g.T, 20, "scnested") {
		e = &Expr{K: Pick(g.T, "scop2", []string{"and", "or"}), A: g.typed("?", 0), B: e}
	}
	g.setType(n, "?")
	g.feat("stmt-shortcircuit-assign")
	out := []*Stmt{{K: k, E: e}}
	if Chance(g.T, 75, "readnext") {
		if kind, _ := g.resolve(n); kind != "" {
			out = append(out, &Stmt{K: "print", E: &Expr{K: "id", T: n}})
		}
	}
	return out
}

func (g *PG) asgStmt() *Stmt {
	names := g.assignable()
	if len(names) == 0 {
		return nil
	}
	n := Pick(g.T, "target", names)
	ty := g.pickType()
	e := &Expr{K: "asg", T: n, A: g.Expr(ty, g.C.ExprDepth)}
	if kind, oty := g.resolve(n); kind != "" && Chance(g.T, 8, "selfassign") {
		// x = x: for a field this creates the field in the current block with
		// the value found further out
		e.A = &Expr{K: "id", T: n}
		if Bool(g.T, "selfpar") {
			e.A = &Expr{K: "par", A: e.A}
		}
		ty = oty
		g.feat("self-assignment")
	}
	// chained assignment a = b = v
	if Chance(g.T, 10, "chain") {
		n2 := Pick(g.T, "target2", names)
		e = &Expr{K: "asg", T: n2, A: e}
		g.setType(n2, ty)
		g.feat("chainasg")
	}
	g.setType(n, ty)
	k := "eval"
	if g.inBlock() && Chance(g.T, 70, "bare") {
		k = "expr"
	}
	if kind, _ := g.resolve(n); kind == "field" || kind == "" {
		g.feat("fieldasg")
	}
	return &Stmt{K: k, E: e}
}

func (g *PG) printStmt() *Stmt {
	return &Stmt{K: "print", E: g.Expr("?", g.C.ExprDepth)}
}

func (g *PG) printState() []*Stmt {
	var out []*Stmt
	for _, n := range g.C.Names {
		if k, _ := g.resolve(n); k != "" {
			out = append(out, &Stmt{K: "print", E: &Expr{K: "id", T: n}})
		}
	}
	return out
}

func (g *PG) defStmt(depth int) *Stmt {
	ty := Pick(g.T, "btype", g.C.Types)
	nameLit := Pick(g.T, "bname", g.C.BNames)
	s := &Stmt{K: "def", Name: ty}
	key := ty
	if nameLit != "" {
		s.HasBName = true
		s.BNameLit = nameLit
		if v, ok := Unquote(nameLit); ok && v != "" {
			key = ty + "." + v
		}
	}
	if g.inBlock() {
		parent := g.blocks[len(g.blocks)-1]
		if parent.keys[key] && !Chance(g.T, g.C.PDupChild, "dupchild") {
			// avoid the duplicate: try the other combinations
			found := false
			for _, t2 := range g.C.Types {
				for _, n2 := range g.C.BNames {
					k2 := t2
					if n2 != "" {
						if v, ok := Unquote(n2); ok && v != "" {
							k2 = t2 + "." + v
						}
					}
					if !parent.keys[k2] && !found {
						found = true
						s.Name, s.HasBName, s.BNameLit, key = t2, n2 != "", n2, k2
					}
				}
			}
			if !found {
				return nil
			}
		} else if parent.keys[key] {
			g.feat("dupchild")
		}
		parent.keys[key] = true
		g.feat("nested")
	}
	g.blocks = append(g.blocks, &blockEnv{fields: map[string]string{}, keys: map[string]bool{}, typ: s.Name})
	g.scopes = append(g.scopes, nil)
	s.Body = g.body(depth+1, Int(g.T, 0, g.C.MaxBody, "bodylen"))
	if g.C.PrintState && Chance(g.T, 60, "printstate") {
		s.Body = append(s.Body, g.printState()...)
	}
	g.scopes = g.scopes[:len(g.scopes)-1]
	g.blocks = g.blocks[:len(g.blocks)-1]
	if !g.inBlock() {
		g.done[s.Name]++
	}
	return s
}

var goodSels = []Tok{{}, {KNum, "1"}, {KWord, "first"}, {KWord, "last"}, {KWord, "all"}}

func (g *PG) bindStmt() *Stmt {
	// mostly bind a type that has blocks
	var have []string
	for _, ty := range g.C.Types {
		if g.done[ty] > 0 {
			have = append(have, ty)
		}
	}
	if len(have) == 0 && Chance(g.T, 85, "bindlater") {
		// nothing to bind yet: define a block instead
		return g.defStmt(0)
	}
	ty := Pick(g.T, "bindtype", g.C.Types)
	if len(have) > 0 && Chance(g.T, 85, "bindhave") {
		ty = Pick(g.T, "bindtype2", have)
	}
	s := &Stmt{K: "bind", Name: ty}
	sel := Pick(g.T, "sel", goodSels)
	if g.done[ty] > 1 && (sel.S == "" || sel.S == "1") && Chance(g.T, 80, "avoidone") {
		sel = Pick(g.T, "sel2", goodSels[2:])
	}
	if sel.S != "" {
		s.HasSel = true
		s.Sel = sel
	}
	s.Target = Pick(g.T, "target", []string{"struct", "slice"})
	if sel.S == "all" {
		s.Target = "slice"
	}
	g.feat("bind")
	return s
}

func (g *PG) badBindStmt() *Stmt {
	s := &Stmt{K: "bind", Name: Pick(g.T, "bindtype", g.C.Types), Target: "struct"}
	switch Int(g.T, 0, 6, "badbind") {
	case 0:
		s.HasSel, s.Sel = true, Tok{KWord, "all"} // all -> struct
	case 1:
		s.HasSel, s.Sel = true, Tok{KNum, Pick(g.T, "badnum", []string{"2", "0", "01", "0x1", "1.0"})}
	case 2:
		s.HasSel, s.Sel = true, Tok{KWord, Pick(g.T, "badword", []string{"x", "First", "any", "one", "struct", "slice"})}
	case 3:
		s.HasSel, s.Sel = true, Tok{KStr, `"q"`}
	case 4:
		s.Target = Pick(g.T, "badtarget", []string{"map", "Struct", "slices", "x", "first", "last", "all"})
	case 5:
		// the words of the statement in each other's place
		s.HasSel, s.Sel = true, Tok{KWord, Pick(g.T, "swapsel", []string{"struct", "slice"})}
		s.Target = Pick(g.T, "swaptarget", []string{"first", "last", "all", "slice", "struct"})
	default:
		s.HasSel, s.Sel = true, Tok{KWord, "all"}
		s.Target = Pick(g.T, "badtarget2", []string{"struct", "x"})
	}
	g.feat("badbind")
	return s
}

// illegal emits one statically illegal statement appropriate to the place.
func (g *PG) illegal() *Stmt {
	g.feat("illegal")
	switch Int(g.T, 0, 3, "illegalkind") {
	case 0: // redeclaration in the same scope
		sc := g.scopes[len(g.scopes)-1]
		if len(sc) > 0 {
			g.feat("illegal:redecl")
			return &Stmt{K: "var", Name: Pick(g.T, "redecl", sc).name, E: g.literal("int")}
		}
		fallthrough
	case 1: // unknown name at toplevel (read)
		if !g.inBlock() {
			for _, n := range g.C.Names {
				if k, _ := g.resolve(n); k == "" {
					g.feat("illegal:unknownread")
					return &Stmt{K: "print", E: &Expr{K: "bin", T: "+", A: g.literal("int"), B: &Expr{K: "id", T: n}}}
				}
			}
		}
		fallthrough
	case 2: // var x = x without an outer x, at toplevel
		if !g.inBlock() {
			for _, n := range g.C.Names {
				if k, _ := g.resolve(n); k == "" {
					g.feat("illegal:selfinit")
					return &Stmt{K: "var", Name: n, E: &Expr{K: "id", T: n}}
				}
			}
		}
		fallthrough
	default: // assignment to an unknown name at toplevel
		if !g.inBlock() {
			for _, n := range g.C.Names {
				if k, _ := g.resolve(n); k == "" {
					g.feat("illegal:unknownasg")
					return &Stmt{K: "eval", E: &Expr{K: "asg", T: n, A: g.literal("int")}}
				}
			}
		}
		sc := g.scopes[len(g.scopes)-1]
		if len(sc) > 0 {
			g.feat("illegal:redecl")
			return &Stmt{K: "var", Name: sc[0].name}
		}
	}
	g.Feat["illegal"]--
	return nil
}

func (g *PG) body(depth int, n int) []*Stmt {
	var out []*Stmt
	for i := 0; i < n; i++ {
		var s *Stmt
		top := depth == 0
		// one-shot injections
		if g.wantIllegal && Chance(g.T, 20, "placeillegal") {
			if s = g.illegal(); s != nil {
				g.wantIllegal = false
				out = append(out, s)
				continue
			}
		}
		if g.wantUnknown && !top && Chance(g.T, 25, "placeunknown") {
			for _, nm := range g.C.Names {
				if k, _ := g.resolve(nm); k == "" {
					g.wantUnknown = false
					g.feat("unknownread")
					out = append(out, &Stmt{K: "print", E: &Expr{K: "id", T: nm}})
					break
				}
			}
			if !g.wantUnknown {
				continue
			}
		}
		if g.wantDivZero && Chance(g.T, 15, "placedivzero") {
			g.wantDivZero = false
			g.feat("divzero")
			out = append(out, &Stmt{K: "print", E: &Expr{K: "bin", T: "/", A: g.typed("int", 1), B: &Expr{K: "int", T: "0"}}})
			continue
		}
		if g.wantBadBind && top && Chance(g.T, 25, "placebadbind") {
			g.wantBadBind = false
			out = append(out, g.badBindStmt())
			continue
		}
		wVar, wAsg, wPrint, wDef, wBind := g.C.WVar, g.C.WAsg, g.C.WPrint, g.C.WDef, g.C.WBind
		if wVar+wAsg+wPrint+wDef+wBind == 0 {
			wVar, wAsg, wPrint, wDef, wBind = 25, 25, 20, 20, 15
		}
		if depth >= g.C.MaxDepth {
			wDef = 0
		}
		if !g.C.Binds || (!top && !g.C.BindInBlocks) {
			wBind = 0
		}
		switch Weighted(g.T, "stmtkind", wVar, wAsg, wPrint, wDef, wBind, (wAsg+3)/4) {
		case 5:
			ss := g.exprStmts()
			out = append(out, ss...)
			continue
		case 0:
			s = g.varStmt()
		case 1:
			s = g.asgStmt()
		case 2:
			s = g.printStmt()
		case 3:
			s = g.defStmt(depth)
			if s != nil && g.C.PrintState && Chance(g.T, 50, "printafter") {
				out = append(out, s)
				out = append(out, g.printState()...)
				continue
			}
		case 4:
			s = g.bindStmt()
		}
		if s == nil {
			s = g.printStmt()
		}
		if Chance(g.T, 15, "semi") {
			s.Semi = true
		}
		out = append(out, s)
	}
	return out
}

// GenProg draws a program.
func GenProg(t *rapid.T, c ProgCfg) (*Prog, map[string]int) {
	g := &PG{T: t, C: c, scopes: [][]varT{nil}, done: map[string]int{}, Feat: map[string]int{}}
	g.wantIllegal = Chance(t, c.PIllegal, "wantillegal")
	g.wantUnknown = Chance(t, c.PUnknown, "wantunknown")
	g.wantDivZero = Chance(t, c.PDivZero, "wantdivzero")
	g.wantBadBind = c.Binds && Chance(t, c.PBadBind, "wantbadbind")
	stmts := g.body(0, Int(t, 0, c.MaxTop, "toplen"))
	if c.PrintState {
		stmts = append(stmts, g.printState()...)
	}
	if Chance(t, c.PPrelude, "prelude") {
		stmts = append(Prelude(t), stmts...)
		g.feat("prelude")
	}
	return &Prog{Stmts: stmts}, g.Feat
}

// Prelude draws 0..300 unrelated toplevel declarations (names z0, z1, ...
// outside every name pool). In front of a program they give its variables
// arbitrary stack slots and its literals and names arbitrary constant
// indices, so that operand bytes take every small value, also the values of
// opcodes.
func Prelude(t *rapid.T) []*Stmt {
	k := Uniform(t, 65, "preludeN")
	if Chance(t, 30, "preludeBig") {
		k = Uniform(t, 301, "preludeN2")
	}
	return PreludeN(t, k)
}

// PreludeN is Prelude with a given number of declarations.
func PreludeN(t *rapid.T, k int) []*Stmt {
	var out []*Stmt
	for i := 0; i < k; i++ {
		var lit *Expr
		if Chance(t, 70, "preludeConst") {
			lit = &Expr{K: "int", T: strconv.Itoa(100000 + i)}
		} else {
			lit = &Expr{K: "nil"}
		}
		out = append(out, &Stmt{K: "var", Name: "z" + strconv.Itoa(i), E: lit})
	}
	return out
}

// ---------- exported helpers for hand-built preambles ----------

func PGInit(g *PG) {
	g.scopes = [][]varT{nil}
	g.done = map[string]int{}
	if g.Feat == nil {
		g.Feat = map[string]int{}
	}
}
func (g *PG) PickType() string             { return g.pickType() }
func (g *PG) Literal(ty string) *Expr      { return g.literal(ty) }
func (g *PG) SetType(name, ty string)      { g.setType(name, ty) }
func (g *PG) Body(depth, n int) []*Stmt    { return g.body(depth, n) }
func (g *PG) Typed(ty string, d int) *Expr { return g.typed(ty, d) }
func (g *PG) DeclareVar(name, ty string) {
	sc := &g.scopes[len(g.scopes)-1]
	*sc = append(*sc, varT{name, ty})
}
func (g *PG) OpenBlock(typ string) {
	g.blocks = append(g.blocks, &blockEnv{fields: map[string]string{}, keys: map[string]bool{}, typ: typ})
	g.scopes = append(g.scopes, nil)
}
func (g *PG) CloseBlock() {
	g.scopes = g.scopes[:len(g.scopes)-1]
	g.blocks = g.blocks[:len(g.blocks)-1]
}

// ---------- constant-pool collisions and limit families ----------

// Walk calls f for every expression node of the program.
func (p *Prog) Walk(f func(e *Expr)) {
	var we func(e *Expr)
	we = func(e *Expr) {
		if e == nil {
			return
		}
		f(e)
		we(e.A)
		we(e.B)
	}
	var ws func(b []*Stmt)
	ws = func(b []*Stmt) {
		for _, s := range b {
			we(s.E)
			ws(s.Body)
		}
	}
	ws(p.Stmts)
}

// Defs lists all def statements.
func (p *Prog) Defs() []*Stmt {
	var out []*Stmt
	var ws func(b []*Stmt)
	ws = func(b []*Stmt) {
		for _, s := range b {
			if s.K == "def" {
				out = append(out, s)
				ws(s.Body)
			}
		}
	}
	ws(p.Stmts)
	return out
}

// PlantCollisions makes constants of different kinds share a spelling: a
// block name or a string literal that spells a number literal of the
// program, an identifier, a block type, or the empty string. It returns
// what it planted.
func PlantCollisions(t *rapid.T, p *Prog) []string {
	var texts []string
	p.Walk(func(e *Expr) {
		switch e.K {
		case "int":
			texts = append(texts, e.T)
			if v, err := strconv.ParseInt(e.T, 0, 64); err == nil {
				texts = append(texts, strconv.FormatInt(v, 10))
			}
		case "float":
			texts = append(texts, e.T)
			if v, err := strconv.ParseFloat(e.T, 64); err == nil {
				texts = append(texts, strconv.FormatFloat(v, 'g', -1, 64), strconv.FormatFloat(v, 'f', -1, 64))
			}
		case "id", "asg":
			texts = append(texts, e.T)
		case "true", "false", "nil":
			texts = append(texts, e.K)
		}
	})
	defs := p.Defs()
	for _, d := range defs {
		texts = append(texts, d.Name)
	}
	texts = append(texts, "", "0", "1", "true")
	var planted []string
	n := Int(t, 1, 3, "ncollide")
	for i := 0; i < n; i++ {
		tx := Pick(t, "collidetext", texts)
		if len(defs) > 0 && Bool(t, "asbname") {
			d := Pick(t, "collidedef", defs)
			d.HasBName, d.BNameLit = true, QuotePlain(tx)
			planted = append(planted, "bname="+tx)
		} else {
			p.Stmts = append(p.Stmts, &Stmt{K: "print", E: &Expr{K: "str", T: QuotePlain(tx)}})
			planted = append(planted, "str="+tx)
		}
	}
	return planted
}

// JumpLimitExpr builds "X and/or (prefix+1+1+...)" whose right operand
// compiles to prefixBytes+2n bytes of code, for probing the 16-bit jump
// limit. prefix kinds: 0: "1" (1 byte), 1: "-1" (2), 2: "2" (2), 3: "-2" (3),
// 4: "not 1" (2)
func JumpLimitExpr(op string, prefix, n int) *Expr {
	var e *Expr
	switch prefix {
	case 0:
		e = &Expr{K: "int", T: "1"}
	case 1:
		e = &Expr{K: "neg", A: &Expr{K: "int", T: "1"}}
	case 2:
		e = &Expr{K: "int", T: "2"}
	case 3:
		e = &Expr{K: "neg", A: &Expr{K: "int", T: "2"}}
	default:
		e = &Expr{K: "neg", A: &Expr{K: "neg", A: &Expr{K: "int", T: "1"}}}
	}
	for i := 0; i < n; i++ {
		e = &Expr{K: "bin", T: "+", A: e, B: &Expr{K: "int", T: "1"}}
	}
	left := &Expr{K: "false"}
	if op == "or" {
		left = &Expr{K: "true"}
	}
	return &Expr{K: op, A: left, B: e}
}

// JumpLimitExprT is JumpLimitExpr with a choice of the repeated term: 0 the
// literal 1 (two bytes of code per term), 1 the variable v, which the program
// must declare (three bytes per term), 2 the literal 5 (a constant: three
// bytes per term). Terms of three bytes make a jump distance that is off by
// a few bytes land inside an instruction.
func JumpLimitExprT(op string, prefix, n, term int) *Expr {
	e := JumpLimitExpr(op, prefix, 0)
	var tm *Expr
	switch term {
	case 1:
		tm = &Expr{K: "id", T: "v"}
	case 2:
		tm = &Expr{K: "int", T: "5"}
	default:
		tm = &Expr{K: "int", T: "1"}
	}
	b := e.B
	for i := 0; i < n; i++ {
		b = &Expr{K: "bin", T: "+", A: b, B: tm}
	}
	e.B = b
	return e
}

// WrapShortCircuit puts a short-circuit expression e (operator op) into one
// of six contexts: 0 none; 1 left operand of the other operator; 2 a chain of
// the same operator; 3 right operand of the other operator; 4 under not;
// 5 between two operands of the other operator. Trees are grouped to the
// right, as the parser groups chains of and/or.
func WrapShortCircuit(e *Expr, op string, wrap int) *Expr {
	seven := &Expr{K: "int", T: "7"}
	other := "or"
	if op == "or" {
		other = "and"
	}
	switch wrap {
	case 1:
		return &Expr{K: other, A: e, B: seven}
	case 2:
		e.B = &Expr{K: op, A: e.B, B: seven}
		return e
	case 3:
		return &Expr{K: other, A: &Expr{K: "nil"}, B: e}
	case 4:
		return &Expr{K: "not", A: e}
	case 5:
		return &Expr{K: other, A: &Expr{K: "int", T: "0"}, B: &Expr{K: other, A: e, B: seven}}
	}
	return e
}

// ManyLocalsProg declares n variables (optionally inside a block) and reads
// and assigns the last ones, so that slot numbers and the final pop count
// need multi-byte operands from 241 on.
func ManyLocalsProg(n int, inBlock bool) *Prog {
	var body []*Stmt
	name := func(i int) string { return "v" + strconv.Itoa(i) }
	for i := 0; i < n; i++ {
		body = append(body, &Stmt{K: "var", Name: name(i), E: &Expr{K: "int", T: strconv.Itoa(i)}})
	}
	// read and assign around the operand-size boundary (slots 236..260) and at the top
	seen := map[int]bool{}
	for _, i := range []int{236, 239, 240, 241, 242, 247, 248, 249, 250, 255, 256, 257, 260, n - 3} {
		if i >= 0 && i < n && !seen[i] {
			seen[i] = true
			body = append(body,
				&Stmt{K: "print", E: &Expr{K: "id", T: name(i)}},
				&Stmt{K: "eval", E: &Expr{K: "asg", T: name(i), A: &Expr{K: "bin", T: "+", A: &Expr{K: "id", T: name(i)}, B: &Expr{K: "int", T: "10000"}}}},
				&Stmt{K: "print", E: &Expr{K: "id", T: name(i)}})
		}
	}
	if n >= 2 {
		body = append(body,
			&Stmt{K: "print", E: &Expr{K: "bin", T: "+", A: &Expr{K: "id", T: name(n - 1)}, B: &Expr{K: "id", T: name(n - 2)}}},
			&Stmt{K: "eval", E: &Expr{K: "asg", T: name(n - 1), A: &Expr{K: "bin", T: "*", A: &Expr{K: "id", T: name(0)}, B: &Expr{K: "int", T: "5"}}}},
			&Stmt{K: "print", E: &Expr{K: "or", A: &Expr{K: "id", T: name(n - 1)}, B: &Expr{K: "id", T: name(n / 2)}}},
		)
	}
	// the scope ends right after an instruction whose last operand byte is an
	// arbitrary small number (a slot), not after a POP or PRINT
	if n > 28 {
		body = append(body, &Stmt{K: "var", Name: "zlast", E: &Expr{K: "id", T: name(28 + (n%3)*240%n)}})
	}
	if inBlock {
		return &Prog{Stmts: []*Stmt{{K: "def", Name: "t", Body: body}, {K: "print", E: &Expr{K: "int", T: "7"}}}}
	}
	return &Prog{Stmts: body}
}

// ManyConstsProg fills the constant pool with n distinct field names and
// values before a block type is mentioned that is then bound, read and
// nested, so that constant indices of GETFIELD/SETFIELD/DEFBLOCK/BIND/CONST
// operands reach the 2-byte varint class (from 241 on).
func ManyConstsProg(n int) *Prog {
	var filler []*Stmt
	for i := 0; i < n; i++ {
		var v *Expr
		switch i % 3 {
		case 0:
			v = &Expr{K: "int", T: strconv.Itoa(1000 + i)}
		case 1:
			v = &Expr{K: "str", T: QuotePlain("s" + strconv.Itoa(i))}
		default:
			v = &Expr{K: "float", T: strconv.Itoa(i) + ".5"}
		}
		filler = append(filler, &Stmt{K: "expr", E: &Expr{K: "asg", T: "f" + strconv.Itoa(i), A: v}})
	}
	lateRead := &Stmt{K: "print", E: &Expr{K: "bin", T: "+", A: &Expr{K: "id", T: "zlate"}, B: &Expr{K: "id", T: "f0"}}}
	return &Prog{Stmts: []*Stmt{
		{K: "def", Name: "filler", Body: append(filler,
			&Stmt{K: "expr", E: &Expr{K: "asg", T: "zlate", A: &Expr{K: "int", T: "7"}}}, lateRead,
			&Stmt{K: "def", Name: "zinner", HasBName: true, BNameLit: `"zn"`, Body: []*Stmt{
				{K: "expr", E: &Expr{K: "asg", T: "zq", A: &Expr{K: "id", T: "zlate"}}}}})},
		{K: "def", Name: "zcfg", HasBName: true, BNameLit: `"one"`, Body: []*Stmt{{K: "expr", E: &Expr{K: "asg", T: "zk", A: &Expr{K: "int", T: "1"}}}}},
		{K: "def", Name: "zcfg", HasBName: true, BNameLit: `"two"`, Body: []*Stmt{{K: "expr", E: &Expr{K: "asg", T: "zk", A: &Expr{K: "int", T: "2"}}}}},
		{K: "bind", Name: "zcfg", HasSel: true, Sel: Tok{KWord, "last"}, Target: "struct"},
		{K: "print", E: &Expr{K: "str", T: QuotePlain("late constant")}},
	}}
}

// DeepNestProg nests blocks n deep, each level with a field and a local.
func DeepNestProg(n int) *Prog {
	var inner []*Stmt
	for i := n - 1; i >= 0; i-- {
		body := []*Stmt{
			{K: "var", Name: "v", E: &Expr{K: "int", T: strconv.Itoa(i)}},
			{K: "expr", E: &Expr{K: "asg", T: "lvl", A: &Expr{K: "bin", T: "+", A: &Expr{K: "id", T: "v"}, B: &Expr{K: "int", T: "1"}}}},
		}
		body = append(body, inner...)
		body = append(body, &Stmt{K: "print", E: &Expr{K: "id", T: "lvl"}})
		inner = []*Stmt{{K: "def", Name: "n" + strconv.Itoa(i%3), Body: body}}
	}
	// completed toplevel blocks before and after: when the nesting exceeds the
	// limit, the run fails and the blocks completed before are still returned
	first := &Stmt{K: "def", Name: "n0", HasBName: true, BNameLit: `"first"`, Body: []*Stmt{
		{K: "expr", E: &Expr{K: "asg", T: "k", A: &Expr{K: "int", T: "1"}}},
		{K: "def", Name: "n1", Body: []*Stmt{{K: "expr", E: &Expr{K: "asg", T: "q", A: &Expr{K: "str", T: `"in"`}}}}}}}
	last := &Stmt{K: "def", Name: "n2", Body: []*Stmt{{K: "expr", E: &Expr{K: "asg", T: "k", A: &Expr{K: "int", T: "2"}}}}}
	return &Prog{Stmts: append(append([]*Stmt{first}, inner...), last)}
}

// SpecialProg draws one of the big-program families that reach the
// multi-byte operand classes and the nesting limits.
func SpecialProg(t *rapid.T) (*Prog, string) {
	switch Uniform(t, 6, "specialfamily") {
	case 4, 5:
		k, kind := Uniform(t, 72, "sweepk"), Uniform(t, OperandSweepKinds, "sweepkind")
		if Chance(t, 15, "sweepbig") {
			k = 230 + Uniform(t, 40, "sweepk2")
		}
		return OperandSweepProg(k, kind), "special:operand-sweep"
	case 0:
		n := Pick(t, "nlocals", []int{239, 240, 241, 242, 260, 600})
		return ManyLocalsProg(n, Bool(t, "inblock")), "special:locals-" + strconv.Itoa(n)
	case 1:
		n := Pick(t, "nconsts", []int{230, 236, 237, 238, 239, 240, 250, 254, 300, 2300})
		return ManyConstsProg(n), "special:constants-" + strconv.Itoa(n)
	case 2:
		n := Pick(t, "nest", []int{8, 15, 16, 17, 18, 24})
		return DeepNestProg(n), "special:nesting-" + strconv.Itoa(n)
	default:
		n := Pick(t, "chain", []int{50, 127, 128, 300, 1000, 1000, 16500, 30000})
		return &Prog{Stmts: []*Stmt{{K: "print", E: JumpLimitExpr(Pick(t, "scop", []string{"and", "or"}), Uniform(t, 5, "prefix"), n)}}}, "special:long-operand-" + strconv.Itoa(n)
	}
}

// OperandSweepKinds is the number of statement shapes OperandSweepProg knows.
const OperandSweepKinds = 10

// OperandSweepProg builds a small program in which the instruction emitted
// last before a scope ends (and the operands around it) carry the operand
// value k: k unrelated toplevel variables, each with a constant of its own,
// come first, so that the next variable gets slot k and the next constant
// index k (plus a few, for the block's type and field names). kind selects the
// statement in last position of the block, which also declares a variable of
// its own so that the scope has something to pop.
func OperandSweepProg(k, kind int) *Prog {
	var top []*Stmt
	for i := 0; i < k; i++ {
		top = append(top, &Stmt{K: "var", Name: "z" + strconv.Itoa(i), E: &Expr{K: "int", T: strconv.Itoa(100000 + i)}})
	}
	id := func(n string) *Expr { return &Expr{K: "id", T: n} }
	lit := func(s string) *Expr { return &Expr{K: "int", T: s} }
	asg := func(n string, e *Expr) *Stmt { return &Stmt{K: "expr", E: &Expr{K: "asg", T: n, A: e}} }
	lastVar := "z" + strconv.Itoa(k-1)
	if k == 0 {
		top = append(top, &Stmt{K: "var", Name: "z0", E: lit("100000")})
		lastVar = "z0"
	}
	var body []*Stmt
	switch kind {
	case 0: // a fresh literal: CONST <k+..>
		body = []*Stmt{asg("x", id(lastVar)), {K: "var", Name: "y", E: lit("777")}}
	case 1: // the last toplevel variable: GETLOCAL <k-1>
		body = []*Stmt{{K: "var", Name: "p", E: lit("1")}, {K: "var", Name: "y", E: id(lastVar)}}
	case 2: // a field read: GETFIELD <index of the name>
		body = []*Stmt{asg("port", id(lastVar)), {K: "var", Name: "y", E: id("port")}}
	case 3: // a field write in last position: SETFIELD <idx> POP
		body = []*Stmt{{K: "var", Name: "p", E: lit("1")}, asg("f", lit("778"))}
	case 4: // print in last position
		body = []*Stmt{{K: "var", Name: "p", E: lit("1")}, {K: "print", E: lit("779")}}
	case 5: // double negation of a variable and of a literal
		body = []*Stmt{{K: "var", Name: "p", E: &Expr{K: "not", A: &Expr{K: "not", A: id(lastVar)}}},
			{K: "var", Name: "y", E: &Expr{K: "not", A: &Expr{K: "not", A: &Expr{K: "str", T: `"lit"`}}}}, {K: "print", E: id("p")}, {K: "print", E: id("y")}}
	case 6: // declaration without initializer in last position
		body = []*Stmt{asg("x", lit("780")), {K: "var", Name: "y"}}
	case 7: // a nested block in last position, itself ending in a declaration
		body = []*Stmt{{K: "var", Name: "p", E: lit("1")}, {K: "def", Name: "u", Body: []*Stmt{{K: "var", Name: "r", E: lit("781")}}}}
	case 8: // local assignment and comparison around the boundary
		body = []*Stmt{{K: "var", Name: "p", E: lit("1")}, {K: "eval", E: &Expr{K: "asg", T: "p", A: &Expr{K: "bin", T: "+", A: id("p"), B: id(lastVar)}}},
			{K: "var", Name: "y", E: &Expr{K: "bin", T: "<=", A: id("p"), B: lit("782")}}, {K: "print", E: id("y")}}
	default: // short circuit whose skipped operand reads the boundary operands
		body = []*Stmt{{K: "var", Name: "p", E: &Expr{K: "or", A: id(lastVar), B: lit("783")}},
			{K: "var", Name: "y", E: &Expr{K: "and", A: &Expr{K: "nil"}, B: id("p")}}, {K: "print", E: id("y")}}
	}
	top = append(top, &Stmt{K: "def", Name: "b", Body: body}, &Stmt{K: "print", E: id(lastVar)})
	// the same shape at the end of the program (program end pops all toplevel variables)
	if kind%2 == 0 {
		top = append(top, &Stmt{K: "var", Name: "ylast", E: lit("784")})
	} else {
		top = append(top, &Stmt{K: "var", Name: "ylast", E: id(lastVar)})
	}
	return &Prog{Stmts: top}
}

// ExprSweepProg is the expression-level companion of OperandSweepProg: after
// k unrelated declarations (slots and constant indices 0..k-1 taken), unary
// chains, short circuits and comparisons are applied to a string variable, an
// int variable and fresh literals, whose operands therefore carry the values
// k, k+1, ... The results are printed.
func ExprSweepProg(k int) *Prog {
	var top []*Stmt
	for i := 0; i < k; i++ {
		top = append(top, &Stmt{K: "var", Name: "z" + strconv.Itoa(i), E: &Expr{K: "int", T: strconv.Itoa(100000 + i)}})
	}
	id := func(n string) *Expr { return &Expr{K: "id", T: n} }
	un := func(op string, e *Expr) *Expr { return &Expr{K: op, A: e} }
	bin := func(op string, a, b *Expr) *Expr { return &Expr{K: "bin", T: op, A: a, B: b} }
	str := func(s string) *Expr { return &Expr{K: "str", T: `"` + s + `"`} }
	lit := func(s string) *Expr { return &Expr{K: "int", T: s} }
	pr := func(e *Expr) *Stmt { return &Stmt{K: "print", E: e} }
	top = append(top,
		&Stmt{K: "var", Name: "s", E: str("abc")},
		&Stmt{K: "var", Name: "n", E: lit("0")},
		&Stmt{K: "var", Name: "f", E: &Expr{K: "float", T: "2.5"}},
		pr(un("not", un("not", id("s")))),
		pr(un("not", un("not", id("n")))),
		pr(un("not", un("not", str("lit")))),
		pr(un("not", un("not", lit("4711")))),
		pr(un("neg", un("neg", id("f")))),
		pr(un("not", bin("==", id("n"), lit("4712")))),
		pr(un("not", bin("<", id("n"), id("f")))),
		pr(&Expr{K: "and", A: id("s"), B: id("n")}),
		pr(&Expr{K: "or", A: id("n"), B: str("other")}),
		pr(bin("+", id("s"), bin("*", id("f"), lit("4713")))),
		pr(bin("<=", un("neg", id("f")), id("n"))),
		pr(un("not", un("not", un("not", id("s"))))),
		&Stmt{K: "def", Name: "b", Body: []*Stmt{
			{K: "expr", E: &Expr{K: "asg", T: "x", A: un("not", un("not", id("s")))}},
			{K: "expr", E: &Expr{K: "asg", T: "y", A: un("not", un("not", id("x")))}},
			{K: "expr", E: &Expr{K: "asg", T: "w", A: bin("!=", id("x"), id("y"))}},
			pr(id("x")), pr(id("y")), pr(id("w")),
		}},
	)
	return &Prog{Stmts: top}
}
