package gen

import (
	"encoding/json"

	"pgregory.net/rapid"
)

// Clone makes a deep copy of a program.
func (p *Prog) Clone() *Prog {
	b, err := json.Marshal(p)
	if err != nil {
		panic(err)
	}
	var q Prog
	if err := json.Unmarshal(b, &q); err != nil {
		panic(err)
	}
	return &q
}

// Vary returns a copy of p that differs only in what the language calls
// layout at the token level: the optional ';' after statements (toggled at
// random; Normalize re-adds the ones that are needed to keep statements
// apart) and redundant parentheses around whole sub-expressions.
func Vary(t *rapid.T, p *Prog, pctPar int) (*Prog, int) {
	q := p.Clone()
	pars := 0
	var we func(e *Expr) *Expr
	we = func(e *Expr) *Expr {
		if e == nil {
			return nil
		}
		e.A = we(e.A)
		e.B = we(e.B)
		if Chance(t, pctPar, "wrap") {
			n := 1
			if Chance(t, 15, "double") {
				n = 2
			}
			for i := 0; i < n; i++ {
				e = &Expr{K: "par", A: e}
				pars++
			}
		}
		return e
	}
	var ws func(b []*Stmt)
	ws = func(b []*Stmt) {
		for _, s := range b {
			s.Semi = Bool(t, "semi")
			s.E = we(s.E)
			ws(s.Body)
		}
	}
	ws(q.Stmts)
	return q, pars
}

// Vocabulary is every token kind of the language with some spellings,
// including literals that are lexically fine but malformed.
var Vocabulary = []Tok{
	W("var"), W("def"), W("eval"), W("print"), W("bind"), W("true"), W("false"), W("nil"), W("not"), W("and"), W("or"),
	W("a"), W("b"), W("x"), W("s"), W("t"), W("struct"), W("slice"), W("first"), W("last"), W("all"), W("TYPE"), W("_"), W("_y"), W("__"),
	N("01"), N("0x1"), N("0X01"),
	N("0"), N("1"), N("2"), N("42"), N("0x1F"), N("017"), N("1.5"), N("1e3"), N("2.5E-3"),
	S(`""`), S(`"a"`), S(`"x y"`), S(`"\n"`), S(`"#;"`),
	P("=="), P("!="), P("<="), P(">="), P("->"), P("="), P("{"), P("}"), P("("), P(")"), P("<"), P(">"),
	P("+"), P("-"), P("*"), P("/"), P(":"), P(";"),
}

// HostileLiterals are accepted by the lexer and malformed or out of range
// for the parser.
var HostileLiterals = []Tok{
	N("08"), N("0x"), N("0X"), N("9223372036854775808"), N("0xFFFFFFFFFFFFFFFFF"), N("1e999"), N("1.0e400"),
	S(`"\q"`), S(`"\400"`), S(`"\u12"`), S(`"\'"`), S(`"\xZZ"`), S(`"\UFFFFFFFF"`), S(`"\ud800"`),
}

// Mutation describes one token-level edit.
type Mutation struct {
	Kind string `json:"kind"` // delete insert replace transpose truncate
	At   int    `json:"at"`
	Tok  Tok    `json:"tok,omitempty"`
}

func (m Mutation) Apply(toks []Tok) []Tok {
	out := append([]Tok{}, toks...)
	switch m.Kind {
	case "delete":
		return append(out[:m.At], out[m.At+1:]...)
	case "insert":
		out = append(out, Tok{})
		copy(out[m.At+1:], out[m.At:])
		out[m.At] = m.Tok
		return out
	case "replace":
		out[m.At] = m.Tok
		return out
	case "transpose":
		out[m.At], out[m.At+1] = out[m.At+1], out[m.At]
		return out
	case "truncate":
		// the input ends after m.At tokens (a file cut short), possibly
		// followed by the first word of the next statement
		out = out[:m.At]
		if m.Tok.S != "" {
			out = append(out, m.Tok)
		}
		return out
	}
	return out
}

// GenMutation draws one edit of a non-empty token list.
func GenMutation(t *rapid.T, toks []Tok, hostilePct int) Mutation {
	pickTok := func() Tok {
		if Chance(t, hostilePct, "hostile") {
			return Pick(t, "hostiletok", HostileLiterals)
		}
		return Pick(t, "vocab", Vocabulary)
	}
	if len(toks) >= 2 && Chance(t, 7, "truncate") {
		// cut short: anywhere, or (half of the time) right after a keyword
		// that starts a statement
		at := 1 + Uniform(t, len(toks)-1, "truncat")
		if Bool(t, "afterkeyword") {
			var kw []int
			for i, tk := range toks[:len(toks)-1] {
				if tk.K == KWord && (tk.S == "var" || tk.S == "def" || tk.S == "eval" || tk.S == "print" || tk.S == "bind") {
					kw = append(kw, i+1)
				}
			}
			if len(kw) > 0 {
				at = Pick(t, "truncatkw", kw)
			}
		}
		m := Mutation{Kind: "truncate", At: at}
		if Chance(t, 40, "thenkeyword") {
			m.Tok = W(Pick(t, "nextkw", []string{"var", "def", "eval", "print", "bind"}))
		}
		return m
	}
	kinds := []string{"delete", "insert", "replace", "transpose"}
	k := Pick(t, "mutkind", kinds)
	if len(toks) < 2 && k == "transpose" {
		k = "replace"
	}
	// '=' slipped in after some identifier: legal only where the grammar
	// allows an assignment to start
	if Chance(t, 10, "asgafterident") {
		var at, afterOp []int
		for i, tk := range toks {
			if tk.K == KWord && !IsKeyword(tk.S) {
				at = append(at, i)
				if i > 0 {
					switch toks[i-1].S {
					case "and", "or", "not", "+", "-", "*", "/", "==", "!=", "<", ">", "<=", ">=":
						afterOp = append(afterOp, i)
					}
				}
			}
		}
		if len(afterOp) > 0 && Bool(t, "afterop") {
			at = afterOp
		}
		if len(at) > 0 {
			return Mutation{Kind: "insert", At: Pick(t, "asgat", at) + 1, Tok: P("=")}
		}
	}
	// a block name that the lexer accepts and the language rejects
	if Chance(t, 4, "badblockname") {
		for i := 2; i < len(toks); i++ {
			if toks[i].K == KStr && toks[i-2].S == "def" && toks[i-2].K == KWord {
				var strs []Tok
				for _, h := range HostileLiterals {
					if h.K == KStr {
						strs = append(strs, h)
					}
				}
				return Mutation{Kind: "replace", At: i, Tok: Pick(t, "badname", strs)}
			}
		}
	}
	// a typo-like replacement by a confusable token
	if Chance(t, 15, "confusable") {
		var at []int
		for i, tk := range toks {
			if _, ok := confusable[tk.S]; ok {
				at = append(at, i)
			}
		}
		if len(at) > 0 {
			i := Pick(t, "confat", at)
			return Mutation{Kind: "replace", At: i, Tok: Pick(t, "conftok", confusable[toks[i].S])}
		}
	}
	switch k {
	case "delete":
		return Mutation{Kind: k, At: Uniform(t, len(toks), "at")}
	case "insert":
		return Mutation{Kind: k, At: Uniform(t, len(toks)+1, "at"), Tok: pickTok()}
	case "replace":
		return Mutation{Kind: k, At: Uniform(t, len(toks), "at"), Tok: pickTok()}
	}
	return Mutation{Kind: "transpose", At: Uniform(t, len(toks)-1, "at")}
}

var confusable = map[string][]Tok{
	"==":    {P("="), P("!="), P("<=")},
	"=":     {P("=="), P(":"), P("->")},
	"!=":    {P("=")},
	"<=":    {P("<"), P("=")},
	">=":    {P(">"), P("=")},
	"<":     {P("<=")},
	"(":     {P("{"), P(")")},
	")":     {P("}"), P("(")},
	"{":     {P("("), P("}")},
	"}":     {P(")"), P("{")},
	"and":   {W("or"), W("not")},
	"or":    {W("and"), W("not")},
	"not":   {W("and"), P("-")},
	":":     {P(";"), P("=")},
	";":     {P(":")},
	"->":    {P("-"), P(">"), P("=")},
	"-":     {P("->")},
	"var":   {W("eval"), W("v")},
	"eval":  {W("var"), W("print")},
	"print": {W("eval"), W("printx")},
	"def":   {W("var"), W("bind")},
	"bind":  {W("def"), W("print")},
	"true":  {W("nil"), W("True")},
	"nil":   {W("not"), W("null")},
}
