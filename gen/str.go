package gen

import (
	"strings"
	"unicode/utf8"
)

// Unquote is the harness's own reading of a double-quoted string literal,
// written from the Go specification of interpreted string literals (which
// is what the language documents its strings to be): \a \b \f \n \r \t \v
// \\ \" , \ooo (three octal digits, value <= 255) and \xHH denote single
// bytes, \uHHHH and \UHHHHHHHH denote the UTF-8 of a valid code point.
// ok is false for anything else (\q, \', short escapes, surrogates, raw
// newline).
func Unquote(lit string) (val string, ok bool) {
	if len(lit) < 2 || lit[0] != '"' || lit[len(lit)-1] != '"' {
		return "", false
	}
	in := lit[1 : len(lit)-1]
	var sb strings.Builder
	for i := 0; i < len(in); {
		c := in[i]
		switch {
		case c == '"' || c == '\n':
			return "", false
		case c != '\\':
			if c < utf8.RuneSelf {
				sb.WriteByte(c)
				i++
				continue
			}
			r, w := utf8.DecodeRuneInString(in[i:])
			sb.WriteRune(r) // invalid bytes become U+FFFD
			i += w
			continue
		}
		i++
		if i >= len(in) {
			return "", false
		}
		e := in[i]
		i++
		hexval := func(n int) (rune, bool) {
			if i+n > len(in) {
				return 0, false
			}
			var v rune
			for k := 0; k < n; k++ {
				d := in[i+k]
				switch {
				case d >= '0' && d <= '9':
					v = v<<4 | rune(d-'0')
				case d >= 'a' && d <= 'f':
					v = v<<4 | rune(d-'a'+10)
				case d >= 'A' && d <= 'F':
					v = v<<4 | rune(d-'A'+10)
				default:
					return 0, false
				}
			}
			i += n
			return v, true
		}
		switch e {
		case 'a':
			sb.WriteByte(7)
		case 'b':
			sb.WriteByte(8)
		case 'f':
			sb.WriteByte(12)
		case 'n':
			sb.WriteByte(10)
		case 'r':
			sb.WriteByte(13)
		case 't':
			sb.WriteByte(9)
		case 'v':
			sb.WriteByte(11)
		case '\\':
			sb.WriteByte('\\')
		case '"':
			sb.WriteByte('"')
		case 'x':
			v, ok := hexval(2)
			if !ok {
				return "", false
			}
			sb.WriteByte(byte(v))
		case 'u':
			v, ok := hexval(4)
			if !ok || !utf8.ValidRune(v) {
				return "", false
			}
			sb.WriteRune(v)
		case 'U':
			if i+8 > len(in) {
				return "", false
			}
			// value must fit a code point; hexval would overflow silently on
			// garbage above 0x10FFFF only in the top bits, check them
			v, ok := hexval(8)
			if !ok || v < 0 || !utf8.ValidRune(v) {
				return "", false
			}
			sb.WriteRune(v)
		case '0', '1', '2', '3', '4', '5', '6', '7':
			if i+2 > len(in) {
				return "", false
			}
			v := int(e - '0')
			for k := 0; k < 2; k++ {
				d := in[i+k]
				if d < '0' || d > '7' {
					return "", false
				}
				v = v*8 + int(d-'0')
			}
			i += 2
			if v > 255 {
				return "", false
			}
			sb.WriteByte(byte(v))
		default:
			return "", false
		}
	}
	return sb.String(), true
}

// QuotePlain writes s as a literal using only the escapes that are needed:
// \\ \" \n, everything else raw. s must be valid UTF-8 for the literal to
// denote exactly s.
func QuotePlain(s string) string {
	var sb strings.Builder
	sb.WriteByte('"')
	for i := 0; i < len(s); i++ {
		switch c := s[i]; c {
		case '\\':
			sb.WriteString(`\\`)
		case '"':
			sb.WriteString(`\"`)
		case '\n':
			sb.WriteString(`\n`)
		default:
			sb.WriteByte(c)
		}
	}
	sb.WriteByte('"')
	return sb.String()
}
