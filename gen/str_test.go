package gen

import (
	"strconv"
	"strings"
	"testing"

	"pgregory.net/rapid"
)

// Self-test of the harness: the own reading of string literals must agree
// with the Go specification's (strconv.Unquote is its reference reading).
func TestUnquoteAgreesWithGoSpec(t *testing.T) {
	pieces := []string{"a", "\\", "\"", "n", "x", "u", "U", "0", "1", "4", "7", "8", "f", "F", "d", "D", "'", " ", "é", "\xff", "\\\\", "\\\"", "\\n",
		"\\x41", "\\u00e9", "\\U0001F600", "\\ud800", "\\400", "\\377", "\\UFFFFFFFF", "\\U00110000", "\t", "\r", "\\a\\b\\f\\r\\t\\v", "\\'", "\\q", "\n"}
	rapid.Check(t, func(t *rapid.T) {
		n := rapid.IntRange(0, 8).Draw(t, "n")
		var sb strings.Builder
		sb.WriteByte('"')
		for i := 0; i < n; i++ {
			sb.WriteString(rapid.SampledFrom(pieces).Draw(t, "p"))
		}
		sb.WriteByte('"')
		lit := sb.String()
		got, ok := Unquote(lit)
		want, err := strconv.Unquote(lit)
		if ok != (err == nil) || (ok && got != want) {
			t.Fatalf("literal %q: own (%q,%v) spec (%q,%v)", lit, got, ok, want, err)
		}
	})
}
