package gen

import (
	"fmt"
	"math"
	"strconv"
	"strings"
	"unicode/utf8"

	"pgregory.net/rapid"
)

// ---------- small draw helpers ----------

func Int(t *rapid.T, lo, hi int, label string) int {
	return rapid.IntRange(lo, hi).Draw(t, label)
}
func Bool(t *rapid.T, label string) bool { return rapid.Bool().Draw(t, label) }

// Uniform draws a uniformly distributed value in [0, n). rapid's own integer
// generators are deliberately biased towards small values, which would skew
// every weighted choice towards its first alternative; fair coin flips are
// not biased, so the value is assembled from them (rejection sampling).
func Uniform(t *rapid.T, n int, label string) int {
	if n <= 1 {
		return 0
	}
	k := 0
	for 1<<k < n {
		k++
	}
	for {
		v := 0
		for i := 0; i < k; i++ {
			v <<= 1
			if rapid.Bool().Draw(t, label) {
				v |= 1
			}
		}
		if v < n {
			return v
		}
	}
}

// Chance is true with probability pct/100.
func Chance(t *rapid.T, pct int, label string) bool {
	if pct <= 0 {
		return false
	}
	if pct >= 100 {
		return true
	}
	return Uniform(t, 100, label) < pct
}
func Pick[T any](t *rapid.T, label string, opts []T) T {
	return opts[Uniform(t, len(opts), label)]
}

// Weighted picks an index according to weights.
func Weighted(t *rapid.T, label string, weights ...int) int {
	sum := 0
	for _, w := range weights {
		sum += w
	}
	x := Uniform(t, sum, label)
	for i, w := range weights {
		if x < w {
			return i
		}
		x -= w
	}
	return len(weights) - 1
}

// ---------- literals ----------

// IntLit draws an int literal spelling (decimal, hex, leading-zero octal)
// and returns it with its value.
func IntLit(t *rapid.T) (string, int) {
	var v int
	switch Weighted(t, "intclass", 30, 20, 20, 6, 3, 3) {
	case 0:
		v = Int(t, 0, 3, "small")
	case 1:
		v = Int(t, 0, 100, "medium")
	case 2:
		v = Int(t, 0, 1<<20, "large")
	case 3:
		v = rapid.IntRange(0, math.MaxInt64).Draw(t, "huge")
	case 4:
		v = math.MaxInt64
	case 5:
		v = Pick(t, "edge", []int{240, 241, 255, 256, 2287, 2288, 65535, 65536, 67823, 67824, 1 << 31, 1 << 32, 1<<53 + 1})
	}
	return IntSpelling(t, v), v
}

// IntSpelling draws one of the spellings of a non-negative value.
func IntSpelling(t *rapid.T, v int) string {
	switch Weighted(t, "intspell", 60, 20, 20) {
	case 1:
		s := strconv.FormatInt(int64(v), 16)
		if Bool(t, "upperhex") {
			s = strings.ToUpper(s)
		}
		pre := Pick(t, "hexprefix", []string{"0x", "0X"})
		z := strings.Repeat("0", Weighted(t, "hexpad", 8, 1, 1))
		return pre + z + s
	case 2:
		z := strings.Repeat("0", Weighted(t, "octpad", 0, 8, 1))
		return z + strconv.FormatInt(int64(v), 8)
	}
	return strconv.FormatInt(int64(v), 10)
}

// FloatLit draws a float literal spelling.
func FloatLit(t *rapid.T) string {
	switch Weighted(t, "floatclass", 30, 20, 15, 15, 10, 10, 6) {
	case 6: // redundant leading zeros in front of any digits, fraction or exponent form
		z := strings.Repeat("0", Int(t, 1, 2, "zeros"))
		if Bool(t, "zfrac") {
			return fmt.Sprintf("%s%d.%d", z, Int(t, 0, 199, "zip"), Int(t, 0, 99, "zfp"))
		}
		return fmt.Sprintf("%s%de%d", z, Int(t, 0, 99, "zm"), Int(t, 0, 3, "zx"))
	case 0: // d.d
		return fmt.Sprintf("%d.%d", Int(t, 0, 99, "ip"), Int(t, 0, 999, "fp"))
	case 1: // exponent only
		e := Pick(t, "e", []string{"e", "E"})
		sg := Pick(t, "esign", []string{"", "+", "-"})
		return fmt.Sprintf("%d%s%s%d", Int(t, 0, 99, "m"), e, sg, Int(t, 0, 30, "x"))
	case 2: // both
		e := Pick(t, "e", []string{"e", "E"})
		sg := Pick(t, "esign", []string{"", "+", "-"})
		return fmt.Sprintf("%d.%d%s%s%d", Int(t, 0, 9, "ip"), Int(t, 0, 99, "fp"), e, sg, Int(t, 0, 20, "x"))
	case 3: // simple values that make exact arithmetic
		return Pick(t, "simple", []string{"0.0", "1.0", "2.0", "0.5", "0.25", "1.5", "2.5", "10.0", "00.5", "0e0", "1e0", "1E1"})
	case 4: // extremes
		return Pick(t, "extreme", []string{"1.7976931348623157e308", "5e-324", "2.2250738585072014e-308", "1e-400", "0.1", "0.3", "1e22", "1e23", "9007199254740993.0", "4.9e-324"})
	default: // any finite bit pattern, shortest round-trip text forced to have a '.' or exponent
		bits := rapid.Uint64().Draw(t, "bits")
		f := math.Float64frombits(bits &^ (1 << 63))
		if math.IsInf(f, 0) || math.IsNaN(f) {
			f = 1.5
		}
		s := strconv.FormatFloat(f, 'g', -1, 64)
		s = strings.Replace(s, "e+", Pick(t, "eplus", []string{"e+", "e", "E+", "E"}), 1)
		if !strings.ContainsAny(s, ".eE") {
			s += ".0"
		}
		return s
	}
}

var strAlphabet = []string{
	"a", "b", "z", "A", "0", "7", " ", " ", "\t", "#", ";", "(", ")", "{", "}", "=", "-", ">", "/", "*",
	"\"", "\\", "\n", "\r", "'", " ", "\u0085", "é", "ß", "日", "😀", "\x00", "\x7f", "_", ":", "var", "def", "nil", ".", ".", "a.b",
	// format verbs (text that must never be used as a format) and bytes that are not UTF-8
	"%", "%s", "%d", "%%", "%!", "\xff", "\x80", "\xc3",
}

// StrValue draws a string value (mostly valid UTF-8) over an alphabet rich in the
// characters that are layout outside of strings.
func StrValue(t *rapid.T, maxParts int) string {
	if Chance(t, 4, "lookalike") {
		// the exact spelling of a literal, keyword or name that the same
		// program is likely to contain as a token of another kind
		return Pick(t, "lookalikeval", []string{"0.0", "1.0", "2.0", "0.5", "0.25", "1.5", "2.5", "10.0", "1e0", "0", "1", "7",
			"0x10", "017", "true", "false", "nil", "a", "b", "c", "d", "e", "s", "t", "TYPE", "NAME", "struct", "first"})
	}
	n := Weighted(t, "strlen", 15, 25, 25, 20, 15)
	if n > maxParts {
		n = maxParts
	}
	if n == 4 {
		n = Int(t, 4, maxInt(4, maxParts), "strlenbig")
	}
	var sb strings.Builder
	for i := 0; i < n; i++ {
		sb.WriteString(Pick(t, "ch", strAlphabet))
	}
	return sb.String()
}

func maxInt(a, b int) int {
	if a > b {
		return a
	}
	return b
}

// StrLit draws a spelling for the value s: every rune either raw (where
// the language allows it) or through one of the escape forms.
func StrLit(t *rapid.T, s string) string {
	plain := Chance(t, 50, "plainstr")
	var sb strings.Builder
	sb.WriteByte('"')
	for i := 0; i < len(s); {
		r, w := utf8.DecodeRuneInString(s[i:])
		if r == utf8.RuneError && w == 1 {
			// a byte that is not UTF-8: only a byte escape denotes it (written
			// raw it would be read as U+FFFD)
			if Bool(t, "octal") {
				fmt.Fprintf(&sb, `\%03o`, s[i])
			} else {
				fmt.Fprintf(&sb, `\x%02x`, s[i])
			}
			i++
			continue
		}
		i += w
		mustEscape := r == '"' || r == '\\' || r == '\n'
		if !mustEscape && (plain || Chance(t, 70, "raw")) {
			sb.WriteRune(r)
			continue
		}
		// escape forms available for this rune
		var forms []string
		switch r {
		case 7:
			forms = append(forms, `\a`)
		case 8:
			forms = append(forms, `\b`)
		case 12:
			forms = append(forms, `\f`)
		case 10:
			forms = append(forms, `\n`)
		case 13:
			forms = append(forms, `\r`)
		case 9:
			forms = append(forms, `\t`)
		case 11:
			forms = append(forms, `\v`)
		case '\\':
			forms = append(forms, `\\`)
		case '"':
			forms = append(forms, `\"`)
		}
		if r < 0x80 {
			forms = append(forms, fmt.Sprintf(`\x%02x`, r), fmt.Sprintf(`\x%02X`, r), fmt.Sprintf(`\%03o`, r))
		}
		if r <= 0xFFFF {
			forms = append(forms, fmt.Sprintf(`\u%04x`, r), fmt.Sprintf(`\u%04X`, r))
		}
		forms = append(forms, fmt.Sprintf(`\U%08x`, r))
		if r >= 0x80 {
			// byte-wise through \x and octal escapes
			var b1, b2 strings.Builder
			for _, c := range []byte(string(r)) {
				fmt.Fprintf(&b1, `\x%02x`, c)
				fmt.Fprintf(&b2, `\%03o`, c)
			}
			forms = append(forms, b1.String(), b2.String())
		}
		sb.WriteString(Pick(t, "escform", forms))
	}
	sb.WriteByte('"')
	return sb.String()
}

// ---------- layout ----------

var wsPieces = []string{" ", " ", " ", "\t", "\v", "\f", "\r", "\n", "\n", "\r\n", "\u0085", " "}
var commentBits = []string{
	"x", " ", "#", "\"", "'", "var", "def x {", "}", ";", "(", ")", "=", "->", "é", "日本", " ", "\u0085",
	"\xff", "\xc3", "\xe2\x82", "\\", "\\\"", "print 1", "\t", "0x", "1e", "!", "$", "`",
}

// LayoutOpts steers GenLayout.
type LayoutOpts struct {
	Plain      int  // percent of gaps that get the minimal separator
	NoComments bool // never emit comments
	OnlyLF     bool // comments end in LF only, no CR anywhere (for cases that count lines independently)
	NoInvalid  bool // no invalid UTF-8 in comments
	NoLines    bool // never the line-structured style
	PHuge      int  // percent of layouts in which one gap is many pages long
}

func genComment(t *rapid.T, o LayoutOpts) string {
	var sb strings.Builder
	sb.WriteByte('#')
	n := Weighted(t, "clen", 3, 4, 2, 1)
	for i := 0; i < n*2; i++ {
		b := Pick(t, "cbit", commentBits)
		if o.NoInvalid && !isValidUTF8(b) {
			b = "?"
		}
		sb.WriteString(b)
	}
	return sb.String()
}

func isValidUTF8(s string) bool {
	for _, r := range s {
		if r == 0xFFFD {
			return false
		}
	}
	return true
}

// GenGap draws the text of one gap. last tells that nothing follows (a
// comment may then run to the end of input).
func GenGap(t *rapid.T, need bool, last bool, o LayoutOpts) string {
	if Chance(t, o.Plain, "plaingap") {
		if need {
			return " "
		}
		if Bool(t, "space") {
			return " "
		}
		return ""
	}
	var sb strings.Builder
	n := Weighted(t, "gaplen", 2, 5, 3, 2)
	for i := 0; i < n; i++ {
		if !o.NoComments && Chance(t, 25, "comment") {
			sb.WriteString(genComment(t, o))
			term := Pick(t, "cterm", []string{"\n", "\n", "\r", "\r\n"})
			if o.OnlyLF {
				term = "\n"
			}
			if last && i == n-1 && Bool(t, "eofcomment") {
				term = ""
			}
			sb.WriteString(term)
			continue
		}
		w := Pick(t, "ws", wsPieces)
		if o.OnlyLF && strings.Contains(w, "\r") {
			w = "\n"
		}
		sb.WriteString(w)
	}
	if need && sb.Len() == 0 {
		sb.WriteString(" ")
	}
	return sb.String()
}

// GenLayout draws a layout for the tokens. A third of the layouts are
// line-structured the way people write sources: one statement per line
// (a line end directly after the statement's last token), indentation, the
// occasional blank or comment line; the rest is free-form.
func GenLayout(t *rapid.T, toks []Tok, o LayoutOpts) Layout {
	g := make([]string, len(toks)+1)
	if !o.NoLines && Chance(t, 35, "linestyle") {
		depth := 0
		eol := Pick(t, "eol", []string{"\n", "\n", "\r\n"})
		if o.OnlyLF {
			eol = "\n"
		}
		for i := 0; i <= len(toks); i++ {
			need := i > 0 && i < len(toks) && NeedSep(toks[i-1], toks[i])
			startsStmt := false
			if i < len(toks) {
				switch toks[i].S {
				case "var", "def", "eval", "print", "bind":
					startsStmt = toks[i].K == KWord
				case "}":
					startsStmt = true
				}
			}
			if i > 0 && (toks[i-1].S == "{" || toks[i-1].S == ";" || toks[i-1].S == "}") {
				startsStmt = true
			}
			if i < len(toks) && toks[i].S == "}" && depth > 0 {
				depth--
			}
			switch {
			case i == 0:
				if Chance(t, 20, "leadcomment") && !o.NoComments {
					g[i] = "# " + Pick(t, "leadtext", []string{"config", "généré", "x"}) + eol
				}
			case i == len(toks):
				g[i] = Pick(t, "trailing", []string{eol, eol, "", eol + eol})
			case startsStmt:
				g[i] = eol
				if Chance(t, 15, "blankline") {
					g[i] += eol
				}
				if Chance(t, 10, "commentline") && !o.NoComments {
					g[i] += strings.Repeat("  ", depth) + "# note" + eol
				}
				g[i] += strings.Repeat(Pick(t, "indent", []string{"  ", "\t", ""}), depth)
			case need || Chance(t, 70, "space"):
				g[i] = " "
			}
			if i < len(toks) && toks[i].S == "{" {
				depth++
			}
		}
		return Layout{g}
	}
	for i := 0; i <= len(toks); i++ {
		need := i > 0 && i < len(toks) && NeedSep(toks[i-1], toks[i])
		g[i] = GenGap(t, need, i == len(toks), o)
	}
	if o.PHuge > 0 && Chance(t, o.PHuge, "hugegap") {
		// one single comment or one uninterrupted run of blanks of many pages
		n := Pick(t, "hugesize", []int{5000, 66000, 70000, 140000})
		i := Uniform(t, len(g), "hugeat")
		if Bool(t, "hugecomment") && !o.NoComments {
			g[i] = g[i] + "#" + strings.Repeat("h", n) + "\n"
		} else {
			g[i] = g[i] + strings.Repeat(Pick(t, "hugews", []string{" ", "\t", "\n"}), n)
		}
	}
	return Layout{g}
}

// SimpleLayout: one statement per line where a statement keyword starts,
// single spaces elsewhere; deterministic.
func SimpleLayout(toks []Tok) Layout {
	g := make([]string, len(toks)+1)
	for i := 1; i < len(toks); i++ {
		g[i] = " "
		if toks[i].K == KWord {
			switch toks[i].S {
			case "var", "def", "eval", "print", "bind":
				g[i] = "\n"
			}
		}
		if toks[i-1].S == "{" || toks[i-1].S == ";" {
			g[i] = "\n"
		}
	}
	if len(toks) > 0 {
		g[len(toks)] = "\n"
	}
	return Layout{g}
}
