package gen

// Expression and statement trees. Everything is plain data (JSON friendly) so
// that a failing case can be written to a replay file and read back.

type Expr struct {
	// K: int float str true false nil | id | neg pos not | bin and or | asg | par
	K string `json:"k"`
	// T: literal spelling (int float str), identifier (id, asg target),
	// operator (bin)
	T string `json:"t,omitempty"`
	A *Expr  `json:"a,omitempty"`
	B *Expr  `json:"b,omitempty"`
}

type Stmt struct {
	// K: var eval print expr def bind
	K    string `json:"k"`
	Name string `json:"name,omitempty"` // var name; def: block type; bind: block type
	E    *Expr  `json:"e,omitempty"`    // var initializer (may be nil), eval/print/expr operand
	// def
	HasBName bool    `json:"hasbname,omitempty"`
	BNameLit string  `json:"bnamelit,omitempty"` // the quoted literal as written
	Body     []*Stmt `json:"body,omitempty"`
	// bind
	HasSel bool   `json:"hassel,omitempty"`
	Sel    Tok    `json:"sel,omitempty"`
	Target string `json:"target,omitempty"`
	Semi   bool   `json:"semi,omitempty"`
}

type Prog struct {
	Stmts []*Stmt `json:"stmts"`
}

// precedence levels as documented: assignment < or < and < not < equality <
// ordering < additive < multiplicative < unary sign (< primary)
const (
	PAsg = iota + 1
	POr
	PAnd
	PNot
	PEq
	PCmp
	PAdd
	PMul
	PUnary
	PPrimary
)

func BinPrec(op string) int {
	switch op {
	case "==", "!=":
		return PEq
	case "<", ">", "<=", ">=":
		return PCmp
	case "+", "-":
		return PAdd
	case "*", "/":
		return PMul
	}
	panic("unknown binary operator " + op)
}

func (e *Expr) Prec() int {
	switch e.K {
	case "asg":
		return PAsg
	case "or":
		return POr
	case "and":
		return PAnd
	case "not":
		return PNot
	case "bin":
		return BinPrec(e.T)
	case "neg", "pos":
		return PUnary
	}
	return PPrimary
}

// Span is the range of token indices [First, Last] a node was rendered to.
type Span struct{ First, Last int }

// Rendered is a token list together with the token span of every node.
type Rendered struct {
	Toks  []Tok
	ESpan map[*Expr]Span // the node's own tokens
	OSpan map[*Expr]Span // the node plus the parentheses the renderer had to add around it
	SSpan map[*Stmt]Span
}

func newRendered() *Rendered {
	return &Rendered{ESpan: map[*Expr]Span{}, OSpan: map[*Expr]Span{}, SSpan: map[*Stmt]Span{}}
}

func (r *Rendered) emit(t Tok) int {
	r.Toks = append(r.Toks, t)
	return len(r.Toks) - 1
}

// expr renders e in a context that needs at least precedence min, adding
// the parentheses the documented precedence requires and no others
// (redundant ones are explicit "par" nodes).
func (r *Rendered) expr(e *Expr, min int) {
	first := len(r.Toks)
	if e.Prec() < min {
		r.emit(P("("))
		r.expr(e, PAsg)
		r.emit(P(")"))
		// the node itself keeps its inner span; nothing to record here,
		// callers that need "operand including its parentheses" use the
		// span of the enclosing rendering via OperandSpan.
		r.note(e, first, len(r.Toks)-1, true)
		return
	}
	switch e.K {
	case "int", "float":
		r.emit(N(e.T))
	case "str":
		r.emit(S(e.T))
	case "true", "false", "nil":
		r.emit(W(e.K))
	case "id":
		r.emit(W(e.T))
	case "neg":
		r.emit(P("-"))
		r.expr(e.A, PUnary)
	case "pos":
		r.emit(P("+"))
		r.expr(e.A, PUnary)
	case "not":
		r.emit(W("not"))
		r.expr(e.A, PNot)
	case "bin":
		p := BinPrec(e.T)
		r.expr(e.A, p)
		r.emit(P(e.T))
		r.expr(e.B, p+1)
	case "and":
		// and/or chains group to the right in this language (which no
		// program can observe); render so that the tree is the grouping
		r.expr(e.A, PAnd+1)
		r.emit(W("and"))
		r.expr(e.B, PAnd)
	case "or":
		r.expr(e.A, POr+1)
		r.emit(W("or"))
		r.expr(e.B, POr)
	case "asg":
		r.emit(W(e.T))
		r.emit(P("="))
		r.expr(e.A, PAsg)
	case "par":
		r.emit(P("("))
		r.expr(e.A, PAsg)
		r.emit(P(")"))
	default:
		panic("unknown expr kind " + e.K)
	}
	r.note(e, first, len(r.Toks)-1, false)
}

// OSpan is the span of a node including the parentheses the renderer had to
// put around it (the extent of the node seen as somebody's operand).
func (r *Rendered) note(e *Expr, first, last int, outer bool) {
	if outer {
		r.OSpan[e] = Span{first, last}
		return
	}
	r.ESpan[e] = Span{first, last}
	if _, ok := r.OSpan[e]; !ok {
		r.OSpan[e] = Span{first, last}
	}
}

func (r *Rendered) stmt(s *Stmt) {
	first := len(r.Toks)
	switch s.K {
	case "var":
		r.emit(W("var"))
		r.emit(W(s.Name))
		if s.E != nil {
			r.emit(P("="))
			r.expr(s.E, PAsg)
		}
	case "eval":
		r.emit(W("eval"))
		r.expr(s.E, PAsg)
	case "print":
		r.emit(W("print"))
		r.expr(s.E, PAsg)
	case "expr":
		r.expr(s.E, PAsg)
	case "def":
		r.emit(W("def"))
		r.emit(W(s.Name))
		if s.HasBName {
			r.emit(S(s.BNameLit))
		}
		r.emit(P("{"))
		for _, b := range s.Body {
			r.stmt(b)
		}
		r.emit(P("}"))
	case "bind":
		r.emit(W("bind"))
		r.emit(W(s.Name))
		if s.HasSel {
			r.emit(P(":"))
			r.emit(s.Sel)
		}
		r.emit(P("->"))
		r.emit(W(s.Target))
	default:
		panic("unknown stmt kind " + s.K)
	}
	if s.Semi {
		r.emit(P(";"))
	}
	r.SSpan[s] = Span{first, len(r.Toks) - 1}
}

// RenderProg renders a program to its token list.
func RenderProg(p *Prog) *Rendered {
	Normalize(p.Stmts)
	r := newRendered()
	for _, s := range p.Stmts {
		r.stmt(s)
	}
	return r
}

// firstTokIsSign tells whether the rendering of e starts with '+' or '-'.
func firstTokIsSign(e *Expr) bool {
	for e != nil {
		switch e.K {
		case "neg", "pos":
			return true
		case "bin", "and", "or":
			// left operand comes first, unless it needs parentheses
			var min int
			switch e.K {
			case "bin":
				min = BinPrec(e.T)
			case "and":
				min = PAnd + 1
			default:
				min = POr + 1
			}
			if e.A.Prec() < min {
				return false
			}
			e = e.A
		default:
			return false
		}
	}
	return false
}

// Normalize makes a statement list unambiguous as a token sequence: a bare
// expression statement that starts with a sign would continue the previous
// statement's expression, so that one gets its ';'.
func Normalize(body []*Stmt) {
	for i, s := range body {
		if s.K == "def" {
			Normalize(s.Body)
		}
		if i > 0 && s.K == "expr" && firstTokIsSign(s.E) {
			// the previous statement ends in an expression that a sign would continue
			prev := body[i-1]
			switch prev.K {
			case "eval", "print", "expr":
				prev.Semi = true
			case "var":
				if prev.E != nil {
					prev.Semi = true
				}
			}
		}
	}
}

// RenderExpr renders one expression.
func RenderExpr(e *Expr) *Rendered {
	r := newRendered()
	r.expr(e, PAsg)
	return r
}
