// Package gen holds the program generator shared by the checks: an AST, its
// rendering to a token list, the rendering of a token list to bytes under a
// layout, and the harness's own tokenizer (R3), written from the documented
// token classes of the language, which re-reads every rendered source as a
// self-check of the generator.
package gen

import (
	"fmt"
	"strings"
	"unicode/utf8"
)

type TokKind int

const (
	KWord  TokKind = iota // identifier or keyword
	KNum                  // int or float literal
	KStr                  // quoted string literal
	KPunct                // operators and punctuation
)

type Tok struct {
	K TokKind `json:"k"`
	S string  `json:"s"`
}

func (t Tok) String() string { return t.S }

var Keywords = []string{"var", "def", "eval", "print", "bind", "true", "false", "nil", "not", "and", "or"}

func IsKeyword(s string) bool {
	for _, k := range Keywords {
		if k == s {
			return true
		}
	}
	return false
}

var Puncts = []string{"==", "!=", "<=", ">=", "->", "=", "{", "}", "(", ")", "<", ">", "+", "-", "*", "/", ":", ";"}

func W(s string) Tok { return Tok{KWord, s} }
func N(s string) Tok { return Tok{KNum, s} }
func S(s string) Tok { return Tok{KStr, s} }
func P(s string) Tok { return Tok{KPunct, s} }

// NeedSep tells whether a and b written next to each other without any
// separator would not be read back as the two tokens a, b.
func NeedSep(a, b Tok) bool {
	switch a.K {
	case KWord:
		// word+word and word+number fuse; word+quote is the lexer's
		// "invalid syntax" rule
		return b.K == KWord || b.K == KNum || b.K == KStr
	case KNum:
		// a word that starts with '_' ends a number without any separator
		if b.K == KWord && strings.HasPrefix(b.S, "_") {
			return false
		}
		return b.K == KWord || b.K == KNum || b.K == KStr
	case KStr:
		if b.K == KWord && strings.HasPrefix(b.S, "_") {
			return false
		}
		return b.K == KWord || b.K == KNum
	case KPunct:
		if b.K != KPunct {
			return false
		}
		switch a.S {
		case "=", "<", ">":
			return strings.HasPrefix(b.S, "=")
		case "-":
			return strings.HasPrefix(b.S, ">")
		}
	}
	return false
}

func isSpaceRune(r rune) bool {
	switch r {
	case ' ', '\t', '\v', '\f', '\n', '\r', 0x85, 0xA0:
		return true
	}
	return false
}
func isAlpha(c byte) bool { return c >= 'a' && c <= 'z' || c >= 'A' && c <= 'Z' }
func isDigit(c byte) bool { return c >= '0' && c <= '9' }
func isHex(c byte) bool {
	return isDigit(c) || c >= 'a' && c <= 'f' || c >= 'A' && c <= 'F'
}

// LexErr describes a lexical failure found by Tokenize: Off is the offset
// just after the offending character(s), which is where the language
// reports it.
type LexErr struct {
	Off  int
	What string
}

func (e *LexErr) Error() string { return fmt.Sprintf("lex error at %d: %s", e.Off, e.What) }

// TokPos is a token with its byte extent [Start, End) in the source.
type TokPos struct {
	Tok
	Start, End int
}

// Tokenize is the harness's own tokenizer (R3). It returns the tokens read
// before the first lexical failure, and that failure if any.
func Tokenize(src string) ([]TokPos, *LexErr) {
	var out []TokPos
	i := 0
	n := len(src)
	peekAlpha := func(j int) bool { return j < n && isAlpha(src[j]) }
	for i < n {
		c := src[i]
		// whitespace
		if r, w := utf8.DecodeRuneInString(src[i:]); isSpaceRune(r) {
			i += w
			continue
		}
		switch {
		case c == '#':
			for i < n && src[i] != '\n' && src[i] != '\r' {
				i++
			}
		case c == '"':
			st := i
			i++
			closed := false
			for i < n {
				ch := src[i]
				if ch == '\\' {
					if i+1 >= n {
						return out, &LexErr{n, "unterminated string"}
					}
					if src[i+1] == '\n' {
						return out, &LexErr{i + 2, "unterminated string"}
					}
					_, w := utf8.DecodeRuneInString(src[i+1:])
					i += 1 + w
					continue
				}
				if ch == '\n' {
					return out, &LexErr{i + 1, "unterminated string"}
				}
				i++
				if ch == '"' {
					closed = true
					break
				}
			}
			if !closed {
				return out, &LexErr{n, "unterminated string"}
			}
			if i < n && (isAlpha(src[i]) || isDigit(src[i])) {
				return out, &LexErr{i + 1, "sticky"}
			}
			out = append(out, TokPos{Tok{KStr, src[st:i]}, st, i})
		case isAlpha(c) || c == '_':
			st := i
			for i < n && (isAlpha(src[i]) || isDigit(src[i]) || src[i] == '_') {
				i++
			}
			if i < n && src[i] == '"' {
				return out, &LexErr{i + 1, "sticky"}
			}
			out = append(out, TokPos{Tok{KWord, src[st:i]}, st, i})
		case isDigit(c):
			st := i
			if c == '0' && i+1 < n && (src[i+1] == 'x' || src[i+1] == 'X') {
				i += 2
				for i < n && isHex(src[i]) {
					i++
				}
				if i < n && (src[i] == '.' || src[i] == '"' || isAlpha(src[i])) {
					return out, &LexErr{i + 1, "sticky"}
				}
				out = append(out, TokPos{Tok{KNum, src[st:i]}, st, i})
				break
			}
			for i < n && isDigit(src[i]) {
				i++
			}
			if i < n && (src[i] == '.' || src[i] == 'e' || src[i] == 'E') {
				if src[i] == '.' {
					i++
					d := i
					for i < n && isDigit(src[i]) {
						i++
					}
					if i == d {
						return out, &LexErr{i, "digits after dot"}
					}
				}
				if i < n && (src[i] == 'e' || src[i] == 'E') {
					i++
					if i < n && (src[i] == '+' || src[i] == '-') {
						i++
					}
					d := i
					for i < n && isDigit(src[i]) {
						i++
					}
					if i == d {
						return out, &LexErr{i, "digits in exponent"}
					}
				}
				if i < n && (src[i] == '"' || isAlpha(src[i])) {
					return out, &LexErr{i + 1, "sticky"}
				}
				out = append(out, TokPos{Tok{KNum, src[st:i]}, st, i})
				break
			}
			if i < n && (src[i] == '"' || peekAlpha(i)) {
				return out, &LexErr{i + 1, "sticky"}
			}
			out = append(out, TokPos{Tok{KNum, src[st:i]}, st, i})
		default:
			matched := false
			for _, p := range Puncts {
				if strings.HasPrefix(src[i:], p) {
					out = append(out, TokPos{Tok{KPunct, p}, i, i + len(p)})
					i += len(p)
					matched = true
					break
				}
			}
			if !matched {
				if c == '!' {
					return out, &LexErr{i + 1, "bang"}
				}
				_, w := utf8.DecodeRuneInString(src[i:])
				return out, &LexErr{i + w, "unknown char"}
			}
		}
	}
	return out, nil
}

// Layout is the separator text of every gap of a token list: Gaps[0] before
// the first token, Gaps[i] between token i-1 and i, Gaps[n] after the last.
type Layout struct {
	Gaps []string `json:"gaps"`
}

// Render writes the tokens with the given layout and returns the source and
// the extent of every token. It panics if the layout has the wrong length.
func Render(toks []Tok, lay Layout) (string, []TokPos) {
	if len(lay.Gaps) != len(toks)+1 {
		panic(fmt.Sprintf("layout has %d gaps for %d tokens", len(lay.Gaps), len(toks)))
	}
	var sb strings.Builder
	pos := make([]TokPos, len(toks))
	for i, t := range toks {
		sb.WriteString(lay.Gaps[i])
		st := sb.Len()
		sb.WriteString(t.S)
		pos[i] = TokPos{t, st, sb.Len()}
	}
	sb.WriteString(lay.Gaps[len(toks)])
	return sb.String(), pos
}

// PlainLayout separates tokens by single spaces, statements are not
// distinguished.
func PlainLayout(toks []Tok) Layout {
	g := make([]string, len(toks)+1)
	for i := 1; i < len(toks); i++ {
		g[i] = " "
	}
	return Layout{g}
}

// SelfCheck re-tokenizes a rendered source and compares with the tokens it
// was rendered from. A mismatch is a bug of the harness, never a finding.
func SelfCheck(src string, toks []Tok) error {
	got, lerr := Tokenize(src)
	if lerr != nil {
		return fmt.Errorf("harness self-check: own tokenizer fails on rendered source: %v", lerr)
	}
	if len(got) != len(toks) {
		return fmt.Errorf("harness self-check: %d tokens rendered, %d read back", len(toks), len(got))
	}
	for i := range got {
		if got[i].Tok != toks[i] {
			return fmt.Errorf("harness self-check: token %d rendered %q read back %q", i, toks[i].S, got[i].S)
		}
	}
	return nil
}
