package bc

import "fmt"

const (
	StackSize      = 1024
	BlockStackSize = 16
)

// VerifyResult is what the static verifier learned about a program.
type VerifyResult struct {
	Instrs     []Instr
	MaxDepth   int
	MaxBlocks  int
	Jumps      int
	MaxJumpLen int
	DepthAt    map[int]int // operand stack depth on entry, per instruction offset
}

// stack effect of an instruction: values popped and pushed
func effect(in Instr) (pop, push int) {
	switch in.Op {
	case CONST, NIL, ZERO, ONE, TRUE, FALSE, GETLOCAL, GETFIELD:
		return 0, 1
	case EQ, LT, GT, ADD, SUB, MUL, DIV:
		return 2, 1
	case NEG, UNPLUS, NOT, SETLOCAL, SETFIELD, JFALSE:
		return 1, 1
	case POP, PRINT:
		return 1, 0
	case POPN:
		return in.Args[0], 0
	}
	return 0, 0
}

// Verify checks the structural well-formedness of a compiled program along
// every control-flow path (property C10). It returns all problems found.
func Verify(f *File) (*VerifyResult, []string) { return VerifyOpt(f, false) }

// VerifyOpt is Verify; allowLoop admits LOOP (hand-assembled files).
func VerifyOpt(f *File, allowLoop bool) (*VerifyResult, []string) {
	var probs []string
	bad := func(format string, a ...any) { probs = append(probs, fmt.Sprintf(format, a...)) }
	res := &VerifyResult{DepthAt: map[int]int{}}

	ins, err := Instrs(f.Code)
	if err != nil {
		bad("instructions do not tile the code: %v", err)
		return res, probs
	}
	res.Instrs = ins
	if len(ins) == 0 {
		bad("empty code")
		return res, probs
	}
	if len(f.Positions) != len(f.Code) {
		bad("%d positions for %d code bytes", len(f.Positions), len(f.Code))
	}
	at := map[int]int{} // offset -> index
	for i, in := range ins {
		at[in.Off] = i
	}
	for i, in := range ins {
		if in.Op == RET && i != len(ins)-1 {
			bad("RET at %d is not the last instruction", in.Off)
		}
	}
	if ins[len(ins)-1].Op != RET {
		bad("last instruction is %s, not RET", Mnemonic[ins[len(ins)-1].Op])
	}
	isStr := func(idx int) bool {
		if idx < 0 || idx >= len(f.Consts) {
			return false
		}
		_, ok := f.Consts[idx].(string)
		return ok
	}
	for _, in := range ins {
		switch in.Op {
		case CONST:
			if in.Args[0] >= len(f.Consts) {
				bad("%s: constant index out of range (%d constants)", in, len(f.Consts))
			}
		case GETFIELD, SETFIELD:
			if !isStr(in.Args[0]) {
				bad("%s: operand is not a string constant", in)
			}
		case DEFBLOCK:
			if !isStr(in.Args[0]) || !isStr(in.Args[1]) {
				bad("%s: operands are not string constants", in)
			}
		case BIND:
			if !isStr(in.Args[0]) {
				bad("%s: type operand is not a string constant", in)
			}
			tgt, sel := in.Args[1]&0xF0, in.Args[1]&0x0F
			if tgt != TgtStruct && tgt != TgtSlice {
				bad("%s: invalid bind target nibble", in)
			}
			if sel != SelOne && sel != SelFirst && sel != SelLast && sel != SelAll {
				bad("%s: invalid bind selector nibble", in)
			}
			if sel == SelAll && tgt != TgtSlice {
				bad("%s: all needs slice", in)
			}
		case JUMP, JFALSE, LOOP:
			res.Jumps++
			if in.Args[0] > res.MaxJumpLen {
				res.MaxJumpLen = in.Args[0]
			}
			tg := in.Target()
			if _, ok := at[tg]; !ok {
				bad("%s: target %d is not an instruction boundary inside the code", in, tg)
			}
			if in.Op == LOOP && !allowLoop {
				bad("%s: the compiler never emits LOOP", in)
			}
		}
	}
	if len(probs) > 0 {
		return res, probs
	}

	// abstract interpretation: (operand depth, block depth) per instruction
	type st struct{ d, b int }
	state := map[int]st{0: {0, 0}}
	work := []int{0}
	visited := map[int]bool{}
	flow := func(from Instr, to int, s st) {
		if old, ok := state[to]; ok {
			if old != s {
				bad("instruction at %d is entered with depth %d/blocks %d (from %s) and with depth %d/blocks %d",
					to, s.d, s.b, from, old.d, old.b)
			}
			return
		}
		state[to] = s
		work = append(work, to)
	}
	for len(work) > 0 && len(probs) == 0 {
		off := work[len(work)-1]
		work = work[:len(work)-1]
		if visited[off] {
			continue
		}
		visited[off] = true
		in := ins[at[off]]
		s := state[off]
		res.DepthAt[off] = s.d
		pop, push := effect(in)
		if s.d < pop {
			bad("%s: needs %d operands, depth is %d", in, pop, s.d)
			break
		}
		switch in.Op {
		case GETLOCAL, SETLOCAL:
			// SETLOCAL peeks the value on top, the slot must lie below it
			live := s.d
			if in.Op == SETLOCAL {
				live = s.d - 1
			}
			if in.Args[0] >= live {
				bad("%s: slot %d is not live (depth %d)", in, in.Args[0], s.d)
			}
		case DEFBLOCK:
			s.b++
			if s.b > res.MaxBlocks {
				res.MaxBlocks = s.b
			}
		case ENDBLOCK:
			if s.b == 0 {
				bad("%s: no open block", in)
			}
			s.b--
		case SETFIELD, GETFIELD:
			if s.b == 0 {
				bad("%s: field access outside of a block", in)
			}
		}
		s.d = s.d - pop + push
		if s.d > res.MaxDepth {
			res.MaxDepth = s.d
		}
		// a depth beyond StackSize is not a malformation: the VM refuses the
		// push at run time (implementation limit, property C06)
		next := off + in.Len
		switch in.Op {
		case RET:
			if s.d != 0 {
				bad("depth at RET is %d", s.d)
			}
			if s.b != 0 {
				bad("%d blocks open at RET", s.b)
			}
		case JUMP, LOOP:
			flow(in, in.Target(), s)
		case JFALSE:
			flow(in, in.Target(), s)
			flow(in, next, s)
		default:
			flow(in, next, s)
		}
	}
	return res, probs
}
