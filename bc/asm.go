package bc

import (
	"math"
	"strings"

	"pgregory.net/rapid"

	"verif/gen"
)

// Asm assembles random well-formed programs directly at bytecode level
// with the pinned 1.1 numbering, including what the compiler never emits:
// negative int, bool and nil constants, NOP, POPN in odd places, LOOP, and
// constant indices in the 2- and 3-byte varint classes.
type Asm struct {
	t      *rapid.T
	code   []byte
	pos    []int
	consts []any
	locals int // live locals = operand depth at statement level
	blocks int
	cur    int // current source position stamp
	minor  byte
	fields []map[string]bool // fields set so far, per open block
	Ops    map[byte]bool
	Feat   map[string]bool
	loops  int
}

func (a *Asm) op(o byte, args ...byte) {
	a.Ops[o] = true
	a.cur += gen.Int(a.t, 0, 3, "posstep")
	a.code = append(a.code, o)
	a.pos = append(a.pos, a.cur)
	for _, b := range args {
		// the format stores one position per code byte: operand bytes may
		// carry positions of their own
		if gen.Chance(a.t, 40, "operandpos") {
			a.cur += gen.Int(a.t, 1, 2, "operandposstep")
		}
		a.code = append(a.code, b)
		a.pos = append(a.pos, a.cur)
	}
}

func (a *Asm) opUv(o byte, vs ...int) {
	var b []byte
	for _, v := range vs {
		b = PutUvarint(b, uint64(v))
		if v > 240 {
			a.Feat["multibyte-operand"] = true
		}
	}
	a.op(o, b...)
}

// konst returns the index of a constant equal to v, adding it if needed
// (sometimes adding a duplicate on purpose: de-duplication is not part of
// the format).
func (a *Asm) konst(v any) int {
	if !gen.Chance(a.t, 15, "dupconst") {
		for i, c := range a.consts {
			if sameConst(c, v) {
				return i
			}
		}
	}
	a.consts = append(a.consts, v)
	return len(a.consts) - 1
}

func sameConst(a, b any) bool {
	switch x := a.(type) {
	case float64:
		y, ok := b.(float64)
		return ok && math.Float64bits(x) == math.Float64bits(y)
	case nil:
		return b == nil
	}
	return a == b
}

func (a *Asm) jumpPlaceholder(o byte) int {
	a.op(o, 0xff, 0xff)
	return len(a.code) - 2
}

func (a *Asm) patch(at int) {
	d := len(a.code) - at - 2
	a.code[at], a.code[at+1] = byte(d>>8), byte(d)
}

var asmNames = []string{"a", "b", "c", "TYPE", "x_y", "s"}
var asmTypes = []string{"s", "t", "u"}

func (a *Asm) intConst() any {
	switch gen.Weighted(a.t, "intk", 40, 25, 15, 10, 10) {
	case 0:
		return gen.Int(a.t, 2, 100, "iv")
	case 1:
		a.Feat["negative-int-const"] = true
		return -gen.Int(a.t, 1, 1000, "niv")
	case 2:
		return gen.Pick(a.t, "iedge", []int{240, 241, 2287, 2288, 67823, 67824, 1 << 24, 1 << 32, 1 << 56, math.MaxInt64})
	case 3:
		a.Feat["negative-int-const"] = true
		return gen.Pick(a.t, "niedge", []int{-1, -240, -241, -2288, -67824, -1 << 31, -1 << 56, math.MinInt64, math.MinInt64 + 1})
	}
	return gen.Pick(a.t, "i01", []int{0, 1})
}

func (a *Asm) strConst() string {
	if gen.Chance(a.t, 8, "longstrconst") {
		n := gen.Pick(a.t, "strclass", []int{240, 241, 300, 2287, 2288, 4096, 4097})
		a.Feat["multibyte-length"] = true
		return strings.Repeat("z", n)
	}
	return gen.Pick(a.t, "sv", []string{"", "a", "b", "ab", "é", "x y", "#;", "0", "nil"})
}

// expr emits code that leaves exactly one value. ty: int float str bool any
func (a *Asm) expr(ty string, d int) {
	if gen.Chance(a.t, 6, "nop") {
		a.op(NOP)
	}
	if ty == "any" {
		ty = gen.Pick(a.t, "ety", []string{"int", "int", "float", "str", "bool", "nil"})
	}
	leaf := d <= 0 || gen.Chance(a.t, 30, "leaf")
	if leaf {
		switch ty {
		case "int":
			switch gen.Weighted(a.t, "il", 20, 20, 60) {
			case 0:
				a.op(ZERO)
			case 1:
				a.op(ONE)
			default:
				a.opUv(CONST, a.konst(a.intConst()))
			}
		case "float":
			f := gen.Pick(a.t, "fv", []float64{0.5, 1.5, -2.25, 1e100, 0, math.Inf(1), 3.0, 1e-320, math.Copysign(0, -1)})
			a.opUv(CONST, a.konst(f))
		case "str":
			if a.blocks > 0 && gen.Chance(a.t, 15, "typename") {
				a.opUv(GETFIELD, a.konst(gen.Pick(a.t, "tn", []string{"TYPE", "NAME"})))
			} else {
				a.opUv(CONST, a.konst(a.strConst()))
			}
		case "bool":
			switch gen.Weighted(a.t, "bl", 35, 35, 30) {
			case 0:
				a.op(TRUE)
			case 1:
				a.op(FALSE)
			default:
				a.Feat["bool-const"] = true
				a.opUv(CONST, a.konst(gen.Bool(a.t, "bc")))
			}
		default:
			if gen.Bool(a.t, "nilop") {
				a.op(NIL)
			} else {
				a.Feat["nil-const"] = true
				a.opUv(CONST, a.konst(nil))
			}
		}
		return
	}
	switch gen.Weighted(a.t, "form", 35, 10, 12, 12, 8, 8, 8, 7) {
	case 0: // binary
		switch ty {
		case "int":
			a.expr("int", d-1)
			a.expr("int", d-1)
			a.op(gen.Pick(a.t, "iop", []byte{ADD, SUB, MUL, DIV}))
		case "float":
			a.expr(gen.Pick(a.t, "fl", []string{"int", "float"}), d-1)
			a.expr("float", d-1)
			a.op(gen.Pick(a.t, "fop", []byte{ADD, SUB, MUL, DIV}))
		case "str":
			a.expr("str", d-1)
			switch gen.Weighted(a.t, "sop", 50, 25, 25) {
			case 0:
				a.expr(gen.Pick(a.t, "sr", []string{"str", "int", "float", "nil"}), d-1)
				a.op(ADD)
			case 1:
				a.op(ONE)
				a.op(ONE)
				a.op(ADD)
				a.op(MUL)
			default:
				a.expr("str", d-1)
				a.op(ADD)
			}
		case "bool":
			t2 := gen.Pick(a.t, "cmpty", []string{"int", "str", "float"})
			a.expr(t2, d-1)
			a.expr(t2, d-1)
			a.op(gen.Pick(a.t, "cop", []byte{EQ, LT, GT}))
			if gen.Bool(a.t, "negate") {
				a.op(NOT)
			}
		default:
			a.expr("any", d-1)
			a.expr("any", d-1)
			a.op(EQ)
		}
	case 1: // unary
		switch ty {
		case "int", "float":
			a.expr(ty, d-1)
			a.op(gen.Pick(a.t, "uop", []byte{NEG, UNPLUS}))
		case "bool":
			a.expr("any", d-1)
			a.op(NOT)
		default:
			a.expr(ty, d-1)
		}
	case 2: // and: A JFALSE end; POP; B; end:
		a.expr(ty, d-1)
		j := a.jumpPlaceholder(JFALSE)
		a.op(POP)
		a.expr(ty, d-1)
		a.patch(j)
	case 3: // or: A JFALSE mid; JUMP end; mid: POP; B; end:
		a.expr(ty, d-1)
		m := a.jumpPlaceholder(JFALSE)
		e := a.jumpPlaceholder(JUMP)
		a.patch(m)
		a.op(POP)
		a.expr(ty, d-1)
		a.patch(e)
	case 4: // read a local
		if a.locals > 0 {
			a.opUv(GETLOCAL, gen.Int(a.t, 0, a.locals-1, "slot"))
			if ty != "any" {
				// its type is unknown; make it the asked type harmlessly
				a.op(POP)
				a.expr(ty, 0)
			}
		} else {
			a.expr(ty, d-1)
		}
	case 5: // assign a local / field, value stays
		a.expr(ty, d-1)
		if a.locals > 0 && gen.Bool(a.t, "setlocal") {
			a.opUv(SETLOCAL, gen.Int(a.t, 0, a.locals-1, "slot"))
		} else if a.blocks > 0 {
			n := gen.Pick(a.t, "fname", asmNames)
			a.fields[len(a.fields)-1][n] = true
			a.opUv(SETFIELD, a.konst(n))
		}
	case 6: // read a field that exists somewhere up the block stack
		var known []string
		for _, m := range a.fields {
			for k := range m {
				known = append(known, k)
			}
		}
		if len(known) > 0 {
			// deterministic order for the draw
			sortStrings(known)
			a.opUv(GETFIELD, a.konst(gen.Pick(a.t, "gf", known)))
			if ty != "any" {
				a.op(POP)
				a.expr(ty, 0)
			}
		} else {
			a.expr(ty, d-1)
		}
	default: // wild: any type where ty was asked (may fail at run time)
		a.expr("any", d-1)
	}
}

func sortStrings(s []string) {
	for i := 1; i < len(s); i++ {
		for j := i; j > 0 && s[j] < s[j-1]; j-- {
			s[j], s[j-1] = s[j-1], s[j]
		}
	}
}

func (a *Asm) stmts(n int, depth int) {
	for i := 0; i < n; i++ {
		wBlock, wBind, wLoop := 15, 0, 0
		if a.blocks >= 3 || depth > 3 {
			wBlock = 0
		}
		if a.blocks == 0 && a.minor >= 1 {
			wBind = 10
		}
		if a.loops == 0 {
			wLoop = 4
		}
		switch gen.Weighted(a.t, "stmt", 30, 12, 20, wBlock, wBind, wLoop, 4) {
		case 0:
			a.expr("any", gen.Int(a.t, 0, 3, "depth"))
			a.op(PRINT)
		case 1:
			a.expr("any", gen.Int(a.t, 0, 3, "depth"))
			a.op(POP)
		case 2: // declare a local: the value simply stays on the stack
			if a.locals < 40 {
				a.expr("any", gen.Int(a.t, 0, 2, "depth"))
				a.locals++
			}
		case 3:
			ty := gen.Pick(a.t, "bt", asmTypes)
			nm := gen.Pick(a.t, "bn", []string{"", "", "n", "m", "x.y"})
			a.opUv(DEFBLOCK, a.konst(ty), a.konst(nm))
			a.blocks++
			a.fields = append(a.fields, map[string]bool{})
			before := a.locals
			a.stmts(gen.Int(a.t, 0, 4, "bodylen"), depth+1)
			switch k := a.locals - before; {
			case k == 1 && gen.Bool(a.t, "pop1"):
				a.op(POP)
			case k > 0:
				a.opUv(POPN, k)
			case gen.Chance(a.t, 10, "popn0"):
				a.opUv(POPN, 0)
			}
			a.locals = before
			a.fields = a.fields[:len(a.fields)-1]
			a.blocks--
			a.op(ENDBLOCK)
		case 4:
			sel := gen.Pick(a.t, "sel", []int{SelOne, SelFirst, SelLast, SelAll})
			tgt := gen.Pick(a.t, "tgt", []int{TgtStruct, TgtSlice})
			if sel == SelAll {
				tgt = TgtSlice
			}
			a.opUv(BIND, a.konst(gen.Pick(a.t, "bindt", asmTypes)))
			if gen.Chance(a.t, 40, "operandpos") {
				a.cur += gen.Int(a.t, 1, 2, "operandposstep")
			}
			a.code = append(a.code, byte(tgt|sel))
			a.pos = append(a.pos, a.cur)
		case 5: // LOOP: backward jump onto a forward jump
			a.loops++
			over := a.jumpPlaceholder(JUMP)
			tramp := len(a.code)
			end := a.jumpPlaceholder(JUMP)
			a.patch(over)
			before := a.locals
			a.stmts(gen.Int(a.t, 0, 2, "loopbody"), depth+1)
			if k := a.locals - before; k > 0 {
				a.opUv(POPN, k)
				a.locals = before
			}
			a.op(LOOP, 0, 0)
			dist := len(a.code) - tramp
			a.code[len(a.code)-2], a.code[len(a.code)-1] = byte(dist>>8), byte(dist)
			a.patch(end)
		default:
			a.op(NOP)
		}
	}
}

// Assemble draws one program file.
func Assemble(t *rapid.T) (*File, map[byte]bool, map[string]bool) {
	a := &Asm{t: t, Ops: map[byte]bool{}, Feat: map[string]bool{}}
	a.minor = byte(gen.Weighted(t, "minor", 15, 85))
	// pre-fill the pool so that indices reach the 2- and 3-byte classes
	switch gen.Weighted(t, "prefill", 70, 22, 8) {
	case 1:
		for i := 0; i < 245; i++ {
			a.consts = append(a.consts, 100000+i)
		}
	case 2:
		for i := 0; i < 2300; i++ {
			a.consts = append(a.consts, 100000+i)
		}
	}
	a.stmts(gen.Int(t, 1, 8, "nstmts"), 0)
	switch {
	case a.locals == 1 && gen.Bool(t, "pop1"):
		a.op(POP)
	case a.locals > 0:
		a.opUv(POPN, a.locals)
	}
	a.op(RET)
	f := &File{Major: 1, Minor: a.minor, Code: a.code, Consts: a.consts, Positions: a.pos}
	f.Name = gen.Pick(t, "fname", []string{"", "n", "prog name", strings.Repeat("N", 241), strings.Repeat("N", 2288)})
	// a line table: some increasing offsets below and above the positions used
	off := 0
	for i := gen.Int(t, 0, 6, "nlf"); i > 0; i-- {
		off += gen.Int(t, 1, 7, "lfstep")
		f.LFs = append(f.LFs, off)
	}
	return f, a.Ops, a.Feat
}
