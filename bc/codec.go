// Package bc is the harness's own bytecode toolkit (R4), written from the
// format comment in prog.go ("prog dump format, version 1.1"), the sqlite4
// varint specification and the Forth-style stack comments of the VM. The
// opcode, type-code and bind-nibble numbering is pinned here as constants:
// it is the version 1.1 format as the pinned build writes it, so a build
// that renumbers anything without a version change no longer agrees.
package bc

import (
	"encoding/binary"
	"errors"
	"fmt"
	"math"
)

// Opcodes of format 1.1.
const (
	NOP = iota
	RET
	PRINT
	SETLOCAL
	GETLOCAL
	DEFBLOCK
	ENDBLOCK
	SETFIELD
	GETFIELD
	CONST
	NIL
	ZERO
	ONE
	TRUE
	FALSE
	NOT
	EQ
	LT
	GT
	ADD
	SUB
	MUL
	DIV
	NEG
	UNPLUS
	JUMP
	LOOP
	JFALSE
	POP
	POPN
	BIND
	NumOps
)

var Mnemonic = [...]string{"NOP", "RET", "PRINT", "SETLOCAL", "GETLOCAL", "DEFBLOCK", "ENDBLOCK", "SETFIELD",
	"GETFIELD", "CONST", "NIL", "ZERO", "ONE", "TRUE", "FALSE", "NOT", "EQ", "LT", "GT", "ADD", "SUB", "MUL",
	"DIV", "NEG", "UNPLUS", "JUMP", "LOOP", "JFALSE", "POP", "POPN", "BIND"}

// Type codes of constants.
const (
	TNil = iota
	TInt
	TFloat
	TStr
	TBool
)

// Bind operand byte: target in the high nibble, selector in the low one.
const (
	SelOne    = 1
	SelFirst  = 2
	SelLast   = 3
	SelAll    = 15
	TgtStruct = 16
	TgtSlice  = 32
)

var Magic = []byte{0xFC, 0x6C}

// ---------- sqlite4 varint ----------

func PutUvarint(dst []byte, v uint64) []byte {
	switch {
	case v <= 240:
		return append(dst, byte(v))
	case v <= 2287:
		return append(dst, byte((v-240)/256+241), byte((v-240)%256))
	case v <= 67823:
		return append(dst, 249, byte((v-2288)/256), byte((v-2288)%256))
	}
	n := 3
	for v>>(8*uint(n)) != 0 {
		n++
	}
	dst = append(dst, byte(247+n))
	for i := n - 1; i >= 0; i-- {
		dst = append(dst, byte(v>>(8*uint(i))))
	}
	return dst
}

var ErrShort = errors.New("bc: input too short")

// UvarintLen is the encoded length announced by the first byte.
func UvarintLen(b0 byte) int {
	switch {
	case b0 <= 240:
		return 1
	case b0 <= 248:
		return 2
	}
	return int(b0) - 246
}

func Uvarint(b []byte) (uint64, int, error) {
	if len(b) == 0 {
		return 0, 0, ErrShort
	}
	n := UvarintLen(b[0])
	if len(b) < n {
		return 0, 0, ErrShort
	}
	switch {
	case n == 1:
		return uint64(b[0]), 1, nil
	case n == 2:
		return 240 + 256*(uint64(b[0])-241) + uint64(b[1]), 2, nil
	case n == 3:
		return 2288 + 256*uint64(b[1]) + uint64(b[2]), 3, nil
	}
	var v uint64
	for i := 1; i < n; i++ {
		v = v<<8 | uint64(b[i])
	}
	return v, n, nil
}

// ---------- container ----------

type Section struct {
	Name       string
	Start, End int // byte extent in the file
}

type File struct {
	Major, Minor byte
	Name         string
	Code         []byte
	Consts       []any // int, float64, string, bool, nil
	Positions    []int
	LFs          []int
	Sections     []Section // filled by Decode: header name code constants positions lfs
	// Bounds lists the offsets of every field boundary inside the file
	// (after each varint, each constant, ...), for classifying cut points.
	Bounds []int
}

func (f *File) Section(name string) Section {
	for _, s := range f.Sections {
		if s.Name == name {
			return s
		}
	}
	return Section{}
}

type reader struct {
	b      []byte
	off    int
	bounds []int
}

func (r *reader) uvarint() (uint64, error) {
	v, n, err := Uvarint(r.b[r.off:])
	if err != nil {
		return 0, err
	}
	r.off += n
	r.bounds = append(r.bounds, r.off)
	return v, nil
}

func (r *reader) bytes(n uint64) ([]byte, error) {
	if uint64(len(r.b)-r.off) < n {
		return nil, ErrShort
	}
	p := r.b[r.off : r.off+int(n)]
	r.off += int(n)
	r.bounds = append(r.bounds, r.off)
	return p, nil
}

// Decode reads a complete version 1.x file; it insists on consuming every
// byte.
func Decode(b []byte) (*File, error) {
	f := &File{}
	r := &reader{b: b}
	if len(b) < 4 {
		return nil, ErrShort
	}
	if b[0] != Magic[0] || b[1] != Magic[1] {
		return nil, fmt.Errorf("bc: bad magic % x", b[:2])
	}
	f.Major, f.Minor = b[2], b[3]
	r.off = 4
	r.bounds = append(r.bounds, 2, 4)
	mark := func(name string, start int) {
		f.Sections = append(f.Sections, Section{name, start, r.off})
	}
	mark("header", 0)

	st := r.off
	n, err := r.uvarint()
	if err != nil {
		return nil, fmt.Errorf("name size: %w", err)
	}
	p, err := r.bytes(n)
	if err != nil {
		return nil, fmt.Errorf("name: %w", err)
	}
	f.Name = string(p)
	mark("name", st)

	st = r.off
	if n, err = r.uvarint(); err != nil {
		return nil, fmt.Errorf("code size: %w", err)
	}
	if p, err = r.bytes(n); err != nil {
		return nil, fmt.Errorf("code: %w", err)
	}
	f.Code = append([]byte{}, p...)
	mark("code", st)

	st = r.off
	if n, err = r.uvarint(); err != nil {
		return nil, fmt.Errorf("constants size: %w", err)
	}
	if n > uint64(len(b)) {
		return nil, fmt.Errorf("constants: count %d exceeds file size", n)
	}
	f.Consts = make([]any, 0, n)
	for i := uint64(0); i < n; i++ {
		tb, err := r.bytes(1)
		if err != nil {
			return nil, fmt.Errorf("constant %d: %w", i, err)
		}
		switch tb[0] {
		case TNil:
			f.Consts = append(f.Consts, nil)
		case TInt:
			u, err := r.uvarint()
			if err != nil {
				return nil, fmt.Errorf("constant %d: %w", i, err)
			}
			f.Consts = append(f.Consts, int(int64(u))) // two's complement
		case TFloat:
			p, err := r.bytes(8)
			if err != nil {
				return nil, fmt.Errorf("constant %d: %w", i, err)
			}
			f.Consts = append(f.Consts, math.Float64frombits(binary.BigEndian.Uint64(p)))
		case TStr:
			k, err := r.uvarint()
			if err != nil {
				return nil, fmt.Errorf("constant %d: %w", i, err)
			}
			p, err := r.bytes(k)
			if err != nil {
				return nil, fmt.Errorf("constant %d: %w", i, err)
			}
			f.Consts = append(f.Consts, string(p))
		case TBool:
			p, err := r.bytes(1)
			if err != nil {
				return nil, fmt.Errorf("constant %d: %w", i, err)
			}
			if p[0] > 1 {
				return nil, fmt.Errorf("constant %d: bool byte %d", i, p[0])
			}
			f.Consts = append(f.Consts, p[0] == 1)
		default:
			return nil, fmt.Errorf("constant %d: unknown type code %d", i, tb[0])
		}
	}
	mark("constants", st)

	st = r.off
	if n, err = r.uvarint(); err != nil {
		return nil, fmt.Errorf("positions size: %w", err)
	}
	if n > uint64(len(b)) {
		return nil, fmt.Errorf("positions: count %d exceeds file size", n)
	}
	f.Positions = make([]int, 0, n)
	for i := uint64(0); i < n; i++ {
		x, err := r.uvarint()
		if err != nil {
			return nil, fmt.Errorf("position %d: %w", i, err)
		}
		f.Positions = append(f.Positions, int(x))
	}
	mark("positions", st)

	st = r.off
	if n, err = r.uvarint(); err != nil {
		return nil, fmt.Errorf("lfs size: %w", err)
	}
	if n > uint64(len(b)) {
		return nil, fmt.Errorf("lfs: count %d exceeds file size", n)
	}
	f.LFs = make([]int, 0, n)
	for i := uint64(0); i < n; i++ {
		x, err := r.uvarint()
		if err != nil {
			return nil, fmt.Errorf("lf %d: %w", i, err)
		}
		f.LFs = append(f.LFs, int(x))
	}
	mark("lfs", st)
	if r.off != len(b) {
		return nil, fmt.Errorf("bc: %d trailing bytes", len(b)-r.off)
	}
	f.Bounds = r.bounds
	return f, nil
}

// Encode writes the file in the version 1.1 layout.
func (f *File) Encode() []byte {
	out := append([]byte{}, Magic...)
	out = append(out, f.Major, f.Minor)
	out = PutUvarint(out, uint64(len(f.Name)))
	out = append(out, f.Name...)
	out = PutUvarint(out, uint64(len(f.Code)))
	out = append(out, f.Code...)
	out = PutUvarint(out, uint64(len(f.Consts)))
	for _, c := range f.Consts {
		switch x := c.(type) {
		case nil:
			out = append(out, TNil)
		case int:
			out = append(out, TInt)
			out = PutUvarint(out, uint64(int64(x)))
		case float64:
			out = append(out, TFloat)
			var p [8]byte
			binary.BigEndian.PutUint64(p[:], math.Float64bits(x))
			out = append(out, p[:]...)
		case string:
			out = append(out, TStr)
			out = PutUvarint(out, uint64(len(x)))
			out = append(out, x...)
		case bool:
			out = append(out, TBool)
			if x {
				out = append(out, 1)
			} else {
				out = append(out, 0)
			}
		default:
			panic(fmt.Sprintf("bc: cannot encode constant %T", c))
		}
	}
	out = PutUvarint(out, uint64(len(f.Positions)))
	for _, x := range f.Positions {
		out = PutUvarint(out, uint64(x))
	}
	out = PutUvarint(out, uint64(len(f.LFs)))
	for _, x := range f.LFs {
		out = PutUvarint(out, uint64(x))
	}
	return out
}

// ---------- instructions ----------

// operand shapes
const (
	argNone = iota
	argUv
	argUvUv
	argU16
	argUvByte
)

func argShape(op byte) int {
	switch op {
	case CONST, GETFIELD, SETFIELD, GETLOCAL, SETLOCAL, POPN:
		return argUv
	case DEFBLOCK:
		return argUvUv
	case JUMP, LOOP, JFALSE:
		return argU16
	case BIND:
		return argUvByte
	}
	return argNone
}

type Instr struct {
	Off  int
	Op   byte
	Args []int
	Len  int
}

func (in Instr) String() string {
	if int(in.Op) < len(Mnemonic) {
		return fmt.Sprintf("%04d %s %v", in.Off, Mnemonic[in.Op], in.Args)
	}
	return fmt.Sprintf("%04d op%d %v", in.Off, in.Op, in.Args)
}

// DecodeInstr decodes the instruction at off.
func DecodeInstr(code []byte, off int) (Instr, error) {
	if off >= len(code) {
		return Instr{}, fmt.Errorf("offset %d beyond code", off)
	}
	in := Instr{Off: off, Op: code[off]}
	if in.Op >= NumOps {
		return in, fmt.Errorf("offset %d: unknown opcode %d", off, in.Op)
	}
	p := off + 1
	uv := func() error {
		v, n, err := Uvarint(code[p:])
		if err != nil {
			return fmt.Errorf("offset %d: operand runs past the code", off)
		}
		in.Args = append(in.Args, int(v))
		p += n
		return nil
	}
	switch argShape(in.Op) {
	case argUv:
		if err := uv(); err != nil {
			return in, err
		}
	case argUvUv:
		if err := uv(); err != nil {
			return in, err
		}
		if err := uv(); err != nil {
			return in, err
		}
	case argU16:
		if p+2 > len(code) {
			return in, fmt.Errorf("offset %d: jump operand runs past the code", off)
		}
		in.Args = append(in.Args, int(code[p])<<8|int(code[p+1]))
		p += 2
	case argUvByte:
		if err := uv(); err != nil {
			return in, err
		}
		if p+1 > len(code) {
			return in, fmt.Errorf("offset %d: bind operand runs past the code", off)
		}
		in.Args = append(in.Args, int(code[p]))
		p++
	}
	in.Len = p - off
	return in, nil
}

// Instrs decodes the whole code linearly from offset 0.
func Instrs(code []byte) ([]Instr, error) {
	var out []Instr
	for off := 0; off < len(code); {
		in, err := DecodeInstr(code, off)
		if err != nil {
			return out, err
		}
		out = append(out, in)
		off += in.Len
	}
	return out, nil
}

// Target gives the jump target of a jump instruction.
func (in Instr) Target() int {
	switch in.Op {
	case JUMP, JFALSE:
		return in.Off + in.Len + in.Args[0]
	case LOOP:
		return in.Off + in.Len - in.Args[0]
	}
	return -1
}

// LineCol computes line:column of an offset from a line table, as the
// language defines it: line = 1 + number of newlines before the offset,
// column = distance from the preceding newline (or from the start, plus 1).
func LineCol(lfs []int, off int) (int, int) {
	line, last := 1, -1
	for _, lf := range lfs {
		if lf < off {
			line++
			last = lf
		}
	}
	return line, off - last
}
