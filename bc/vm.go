package bc

import (
	"fmt"
	"strings"

	"github.com/wkhere/bcl"

	"verif/ref"
)

// Result of running a decoded program on the reference VM.
type Result struct {
	Out      string
	Blocks   []bcl.Block
	Binding  bcl.Binding
	Warnings []string // full expected warning lines
	// Err: "" on success; otherwise ErrPrefix is the exact expected prefix
	// "runtime error: line L:C: " and ErrContains what the rest must mention
	Failed      bool
	ErrPrefix   string
	ErrContains []string
	ErrClass    string
	Internal    string // non-empty: the program is malformed (reference VM refused it)
	Unspecified string // outcome not fixed by the documented rules
	Trace       []int  // offsets of the instructions executed, in order
	TosMax      int
}

var opSym = map[byte]string{EQ: "==", LT: "<", GT: ">", ADD: "+", SUB: "-", MUL: "*", DIV: "/"}

// Exec runs f on the reference VM (written from the stack comments of the
// documented instruction set). maxSteps bounds runaway programs.
func Exec(f *File, maxSteps int) *Result {
	res := &Result{}
	var out strings.Builder
	var stack []any
	var blocks []*bcl.Block
	pc := 0
	code := f.Code
	fail := func(at int, class string, contains ...string) *Result {
		pos := 0
		if at >= 0 && at < len(f.Positions) {
			pos = f.Positions[at]
		}
		l, c := LineCol(f.LFs, pos)
		res.Failed = true
		res.ErrClass = class
		res.ErrPrefix = fmt.Sprintf("runtime error: line %d:%d: ", l, c)
		res.ErrContains = contains
		res.Out = out.String()
		return res
	}
	internal := func(format string, a ...any) *Result {
		res.Internal = fmt.Sprintf(format, a...)
		res.Out = out.String()
		return res
	}
	strConst := func(i int) (string, bool) {
		if i < 0 || i >= len(f.Consts) {
			return "", false
		}
		s, ok := f.Consts[i].(string)
		return s, ok
	}
	for steps := 0; ; steps++ {
		if steps > maxSteps {
			return internal("step budget exhausted")
		}
		in, err := DecodeInstr(code, pc)
		if err != nil {
			return internal("%v", err)
		}
		res.Trace = append(res.Trace, pc)
		last := pc + in.Len - 1 // the position entry the VM uses for errors
		pc += in.Len
		need := func(n int) bool { return len(stack) >= n }
		push := func(v any) bool {
			if len(stack) == StackSize {
				return false
			}
			stack = append(stack, v)
			if len(stack) > res.TosMax {
				res.TosMax = len(stack)
			}
			return true
		}
		pushed := true
		switch in.Op {
		case NOP:
		case CONST:
			if in.Args[0] >= len(f.Consts) {
				return internal("%s: constant out of range", in)
			}
			pushed = push(f.Consts[in.Args[0]])
		case ZERO:
			pushed = push(0)
		case ONE:
			pushed = push(1)
		case TRUE:
			pushed = push(true)
		case FALSE:
			pushed = push(false)
		case NIL:
			pushed = push(nil)
		case EQ, LT, GT, ADD, SUB, MUL, DIV:
			if !need(2) {
				return internal("%s: stack underflow", in)
			}
			a, b := stack[len(stack)-2], stack[len(stack)-1]
			v, oe, unspec := ref.Binop(opSym[in.Op], a, b)
			if unspec != "" {
				res.Unspecified = unspec
			}
			if oe != nil {
				return fail(last, oe.Class, oe.Contains...)
			}
			stack = stack[:len(stack)-2]
			stack = append(stack, v)
		case NEG, UNPLUS:
			if !need(1) {
				return internal("%s: stack underflow", in)
			}
			switch x := stack[len(stack)-1].(type) {
			case int:
				if in.Op == NEG {
					stack[len(stack)-1] = -x
				}
			case float64:
				if in.Op == NEG {
					stack[len(stack)-1] = -x
				}
			default:
				return fail(last, "type", "invalid type: "+ref.TypeName(x))
			}
		case NOT:
			if !need(1) {
				return internal("%s: stack underflow", in)
			}
			stack[len(stack)-1] = ref.Falsey(stack[len(stack)-1])
		case JUMP:
			pc += in.Args[0]
		case LOOP:
			pc -= in.Args[0]
		case JFALSE:
			if !need(1) {
				return internal("%s: stack underflow", in)
			}
			if ref.Falsey(stack[len(stack)-1]) {
				pc += in.Args[0]
			}
		case POP:
			if !need(1) {
				return internal("%s: stack underflow", in)
			}
			stack = stack[:len(stack)-1]
		case POPN:
			if !need(in.Args[0]) {
				return internal("%s: stack underflow", in)
			}
			stack = stack[:len(stack)-in.Args[0]]
		case PRINT:
			if !need(1) {
				return internal("%s: stack underflow", in)
			}
			fmt.Fprintln(&out, stack[len(stack)-1])
			stack = stack[:len(stack)-1]
		case GETLOCAL:
			if in.Args[0] >= len(stack) {
				return internal("%s: slot not live", in)
			}
			pushed = push(stack[in.Args[0]])
		case SETLOCAL:
			if !need(1) || in.Args[0] >= len(stack) {
				return internal("%s: slot not live", in)
			}
			stack[in.Args[0]] = stack[len(stack)-1]
		case DEFBLOCK:
			if len(blocks) == ref.MaxBlockDepth {
				// the VM checks before reading the operands
				return fail(last-in.Len+1, "nest")
			}
			ty, ok1 := strConst(in.Args[0])
			nm, ok2 := strConst(in.Args[1])
			if !ok1 || !ok2 {
				return internal("%s: operands are not string constants", in)
			}
			blocks = append(blocks, &bcl.Block{Type: ty, Name: nm, Fields: map[string]any{}})
		case ENDBLOCK:
			if len(blocks) == 0 {
				return internal("%s: no open block", in)
			}
			b := blocks[len(blocks)-1]
			blocks = blocks[:len(blocks)-1]
			if len(blocks) > 0 {
				parent := blocks[len(blocks)-1]
				k := b.Type
				if b.Name != "" {
					k += "." + b.Name
				}
				if _, dup := parent.Fields[k]; dup {
					return fail(last, "dupchild")
				}
				parent.Fields[k] = *b
			} else {
				res.Blocks = append(res.Blocks, *b)
			}
		case GETFIELD:
			name, ok := strConst(in.Args[0])
			if !ok || len(blocks) == 0 {
				return internal("%s: bad field access", in)
			}
			var v any
			found := false
			switch name {
			case "TYPE":
				v, found = blocks[len(blocks)-1].Type, true
			case "NAME":
				v, found = blocks[len(blocks)-1].Name, true
			default:
				for i := len(blocks) - 1; i >= 0 && !found; i-- {
					v, found = blocks[i].Fields[name]
				}
			}
			if !found {
				return fail(last, "unresolved", "'"+name+"'", "not resolved")
			}
			pushed = push(v)
		case SETFIELD:
			name, ok := strConst(in.Args[0])
			if !ok || len(blocks) == 0 || !need(1) {
				return internal("%s: bad field access", in)
			}
			blocks[len(blocks)-1].Fields[name] = stack[len(stack)-1]
		case BIND:
			ty, ok := strConst(in.Args[0])
			if !ok {
				return internal("%s: type operand is not a string", in)
			}
			if res.Binding != nil {
				// the warning is positioned at the opcode byte
				l, c := LineCol(f.LFs, f.Positions[in.Off])
				res.Warnings = append(res.Warnings, fmt.Sprintf("WARNING: line %d:%d: ", l, c))
			}
			var cand []bcl.Block
			for _, b := range res.Blocks {
				if b.Type == ty {
					cand = append(cand, b)
				}
			}
			if len(cand) == 0 {
				return fail(last, "bindnone", "no blocks of type "+ty)
			}
			tgt, sel := in.Args[1]&0xF0, in.Args[1]&0x0F
			if sel == SelOne && len(cand) != 1 {
				return fail(last, "bindcount", fmt.Sprintf("found %d blocks of type %s", len(cand), ty))
			}
			var chosen []bcl.Block
			switch sel {
			case SelOne, SelFirst:
				chosen = cand[:1]
			case SelLast:
				chosen = cand[len(cand)-1:]
			case SelAll:
				chosen = cand
			default:
				return fail(last, "bindinvalid")
			}
			switch {
			case tgt == TgtStruct && sel != SelAll:
				res.Binding = bcl.StructBinding{Value: chosen[0]}
			case tgt == TgtSlice:
				res.Binding = bcl.SliceBinding{Value: chosen}
			default:
				return fail(last, "bindinvalid")
			}
		case RET:
			res.Out = out.String()
			if len(stack) != 0 {
				return internal("non-empty stack at RET: %d", len(stack))
			}
			return res
		default:
			return internal("unknown opcode %d at %d", in.Op, in.Off)
		}
		if !pushed {
			return fail(last, "overflow")
		}
	}
}
